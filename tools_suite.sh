#!/bin/sh
# runs the repository's suite (guard off) in the given directory inside a private network namespace
# (TestJSONSchemaSuite binds 127.0.0.1:1234; concurrent runs would collide)
dir=${1:-/repo}
export GOFLAGS=-mod=mod GOPROXY=off GOSUMDB=off GOTOOLCHAIN=local
out=$(cd $dir && unshare -n sh -c 'ip link set lo up; go test -json -vet=off -count=1 -timeout 25m ./...' 2>&1)
echo "$out" | python3 -c "
import sys,json
p=set();f=set()
for l in sys.stdin:
    try: e=json.loads(l)
    except: continue
    if e.get('Test') and e.get('Action') in('pass','fail'):
        (p if e['Action']=='pass' else f).add(e['Package']+'::'+e['Test'])
base=set(json.load(open('/root/.vp/BASELINE.json'))['stable_pass'])
print('passed',len(p),'failed',sorted(f))
print('baseline missing:',sorted(base-p))
"
