#!/bin/sh
# runs the property's quick check against a seeded change: apply to /repo, check, undo straight afterwards
id=$1; prop=${2:-$1}
cd /verif
git -C /repo apply /verif/seeded/$id/patch.diff || { echo "$id: patch does not apply"; exit 2; }
out=$(bin/gosx check $prop 2>&1 | grep -av WARN)
code=$(echo "$out" | grep -o "exit=[0-9]" | tail -1)
git -C /repo checkout -- .
echo "== seed $id vs check $prop: $code"
echo "$out" | grep -a "VIOLATION\|INCONCLUSIVE\|^  Harness" | cut -c1-260 | head -6
