//go:build verif

package validate

// Reference evaluator for JSON Schema draft 4 over spec.Schema and JSON-decoded values
// (nil, bool, float64, string, []interface{}, map[string]interface{}). It is executed by the same
// engine on the same symbolic inputs as the implementation (differential oracle). It is written
// branch-free on symbolic values: structure (schema shape, instance kinds, lengths, member names)
// is concrete on a path; every comparison of numbers / booleans goes through verifAnd/Or/Not.
//
// Validated natively against the labels of the JSON-Schema-Test-Suite fixtures of /repo
// (selftest; $ref/definitions/default files excluded).

import (
	"math"
	"unicode/utf8"

	"github.com/go-openapi/spec"
)

func refJSONEqual(a, b interface{}) bool {
	switch x := a.(type) {
	case nil:
		return b == nil
	case bool:
		y, ok := b.(bool)
		if !ok {
			return false
		}
		return verifIff(x, y)
	case float64:
		y, ok := b.(float64)
		if !ok {
			return false
		}
		return x == y
	case string:
		y, ok := b.(string)
		if !ok {
			return false
		}
		return verifStrEq(x, y)
	case []interface{}:
		y, ok := b.([]interface{})
		if !ok || len(x) != len(y) {
			return false
		}
		r := true
		for i := range x {
			r = verifAnd(r, refJSONEqual(x[i], y[i]))
		}
		return r
	case map[string]interface{}:
		y, ok := b.(map[string]interface{})
		if !ok || len(x) != len(y) {
			return false
		}
		r := true
		for k, v := range x {
			w, present := y[k]
			if !present {
				return false
			}
			r = verifAnd(r, refJSONEqual(v, w))
		}
		return r
	}
	return false
}

func refHasType(t string, d interface{}) bool {
	switch t {
	case "null":
		return d == nil
	case "boolean":
		_, ok := d.(bool)
		return ok
	case "number":
		_, ok := d.(float64)
		return ok
	case "integer":
		f, ok := d.(float64)
		if !ok {
			return false
		}
		return verifAnd(f == math.Trunc(f), verifNot(math.IsInf(f, 0)))
	case "string":
		_, ok := d.(string)
		return ok
	case "array":
		_, ok := d.([]interface{})
		return ok
	case "object":
		_, ok := d.(map[string]interface{})
		return ok
	}
	return false
}

// refValid: draft-4 validity. Formats: asserted only for strings and only when the registry knows
// the format (verifKnownFmt / verifFmtOK are the predicates the registry stub answers with).
func refValid(s *spec.Schema, d interface{}) bool {
	if s == nil {
		return true
	}
	ok := true
	if len(s.Type) > 0 {
		any := false
		for _, t := range s.Type {
			any = verifOr(any, refHasType(t, d))
		}
		ok = verifAnd(ok, any)
	}
	if len(s.Enum) > 0 {
		any := false
		for _, e := range s.Enum {
			any = verifOr(any, refJSONEqual(e, d))
		}
		ok = verifAnd(ok, any)
	}
	if f, isNum := d.(float64); isNum {
		if s.Maximum != nil {
			if s.ExclusiveMaximum {
				ok = verifAnd(ok, f < *s.Maximum)
			} else {
				ok = verifAnd(ok, f <= *s.Maximum)
			}
		}
		if s.Minimum != nil {
			if s.ExclusiveMinimum {
				ok = verifAnd(ok, f > *s.Minimum)
			} else {
				ok = verifAnd(ok, f >= *s.Minimum)
			}
		}
		if s.MultipleOf != nil {
			ok = verifAnd(ok, refMultipleOf(f, *s.MultipleOf))
		}
	}
	if str, isStr := d.(string); isStr {
		n := int64(utf8.RuneCountInString(str))
		if s.MaxLength != nil {
			ok = verifAnd(ok, n <= *s.MaxLength)
		}
		if s.MinLength != nil {
			ok = verifAnd(ok, n >= *s.MinLength)
		}
		if s.Pattern != "" {
			ok = verifAnd(ok, verifMatches(s.Pattern, str))
		}
		if s.Format != "" {
			ok = verifAnd(ok, verifImplies(verifKnownFmt(s.Format), verifFmtOK(s.Format, str)))
		}
	}
	if arr, isArr := d.([]interface{}); isArr {
		if s.MaxItems != nil {
			ok = verifAnd(ok, int64(len(arr)) <= *s.MaxItems)
		}
		if s.MinItems != nil {
			ok = verifAnd(ok, int64(len(arr)) >= *s.MinItems)
		}
		if s.UniqueItems {
			for i := range arr {
				for j := 0; j < i; j++ {
					ok = verifAnd(ok, verifNot(refJSONEqual(arr[i], arr[j])))
				}
			}
		}
		if s.Items != nil {
			if s.Items.Schema != nil {
				for _, e := range arr {
					ok = verifAnd(ok, refValid(s.Items.Schema, e))
				}
			} else if len(s.Items.Schemas) > 0 { // tuple form
				for i, e := range arr {
					if i < len(s.Items.Schemas) {
						ok = verifAnd(ok, refValid(&s.Items.Schemas[i], e))
					} else if s.AdditionalItems != nil {
						if s.AdditionalItems.Schema != nil {
							ok = verifAnd(ok, refValid(s.AdditionalItems.Schema, e))
						} else if !s.AdditionalItems.Allows {
							ok = false
						}
					}
				}
			}
		}
	}
	if obj, isObj := d.(map[string]interface{}); isObj {
		if s.MaxProperties != nil {
			ok = verifAnd(ok, int64(len(obj)) <= *s.MaxProperties)
		}
		if s.MinProperties != nil {
			ok = verifAnd(ok, int64(len(obj)) >= *s.MinProperties)
		}
		for _, r := range s.Required {
			if _, present := obj[r]; !present {
				ok = false
			}
		}
		for k, v := range obj {
			described := false
			if ps, has := s.Properties[k]; has {
				described = true
				ps := ps
				ok = verifAnd(ok, refValid(&ps, v))
			}
			for pat, ps := range s.PatternProperties {
				if verifMatches(pat, k) {
					described = true
					ps := ps
					ok = verifAnd(ok, refValid(&ps, v))
				}
			}
			if !described && s.AdditionalProperties != nil {
				if s.AdditionalProperties.Schema != nil {
					ok = verifAnd(ok, refValid(s.AdditionalProperties.Schema, v))
				} else if !s.AdditionalProperties.Allows {
					ok = false
				}
			}
		}
		for k, dep := range s.Dependencies {
			if _, present := obj[k]; !present {
				continue
			}
			if dep.Schema != nil {
				ok = verifAnd(ok, refValid(dep.Schema, d))
			}
			for _, need := range dep.Property {
				if _, present := obj[need]; !present {
					ok = false
				}
			}
		}
	}
	for i := range s.AllOf {
		ok = verifAnd(ok, refValid(&s.AllOf[i], d))
	}
	if len(s.AnyOf) > 0 {
		any := false
		for i := range s.AnyOf {
			any = verifOr(any, refValid(&s.AnyOf[i], d))
		}
		ok = verifAnd(ok, any)
	}
	if len(s.OneOf) > 0 {
		// exactly one: some i valid and no pair valid
		any := false
		pair := false
		for i := range s.OneOf {
			vi := refValid(&s.OneOf[i], d)
			pair = verifOr(pair, verifAnd(any, vi))
			any = verifOr(any, vi)
		}
		ok = verifAnd(ok, any, verifNot(pair))
	}
	if s.Not != nil {
		ok = verifAnd(ok, verifNot(refValid(s.Not, d)))
	}
	return ok
}

// refMultipleOf: exact divisibility for the numbers the structural families draw (small
// finite-domain decimals): f = q*m for an integer q.
func refMultipleOf(f, m float64) bool {
	q := f / m
	return verifAnd(m > 0, q == math.Trunc(q))
}
