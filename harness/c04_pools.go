//go:build verif

package validate

// C04 / C08 / C11 / C12 / C17: harnesses over a mixed family of (schema, instance) pairs that
// exercises every keyword-group validator (number, string, format, object, slice, composition).

import (
	"github.com/go-openapi/errors"
	"github.com/go-openapi/spec"
	"sort"
)

func strSchema(format string, minLen int64) spec.Schema {
	s := schemaOfType("string")
	s.Format = format
	if minLen >= 0 {
		s.MinLength = ptrI(minLen)
	}
	return s
}

// genMixedPair draws a (schema, instance) pair; variant selects the keyword group.
func genMixedPair() (*spec.Schema, interface{}) {
	s := spec.Schema{}
	var d interface{}
	switch verifChoose(8 + 2*verifTier()) {
	case 8: // thorough: patternProperties next to dependencies
		s.PatternProperties = map[string]spec.Schema{"^a": genLeafSmall(), "b$": strSchema("date", -1)}
		s.Dependencies = spec.Dependencies{"ab": spec.SchemaOrStringArray{Property: []string{"c"}}}
		s.MinProperties = ptrI(verifPickInt(0, 2))
		obj := map[string]interface{}{}
		for _, k := range []string{"ab", "b", "c"} {
			if verifBool() {
				obj[k] = genObjValue()
			}
		}
		return &s, obj
	case 9: // thorough: tuple of two with schema-valued additionalItems and uniqueItems, arrays of up to 4
		s.Items = &spec.SchemaOrArray{Schemas: []spec.Schema{genLeafSmall(), strSchema("", 1)}}
		l := schemaOfType("number")
		s.AdditionalItems = &spec.SchemaOrBool{Allows: true, Schema: &l}
		s.UniqueItems = verifBool()
		n := verifChoose(5)
		arr := make([]interface{}, 0, n)
		for i := 0; i < n; i++ {
			arr = append(arr, genObjValue())
		}
		return &s, arr
	case 7: // no schema at all: nothing to validate
		return nil, genObjValue()
	case 0: // numbers
		s.Type = spec.StringOrArray{"number"}
		s.Maximum = ptrF(2)
		if verifBool() {
			s.MultipleOf = ptrF(0.5)
		}
		if verifBool() {
			d = genNum()
		} else {
			d = "a"
		}
	case 1: // strings with pattern and format
		s = strSchema("date", 2)
		s.Pattern = "^a"
		d = []interface{}{"", "ab", "ba", nil}[verifChoose(4)]
	case 2: // objects
		s.Type = spec.StringOrArray{"object"}
		pa := genLeafSmall()
		if verifBool() {
			pa.Default = 1.0 // an absent member with a default is exempt from "required"
		}
		s.Properties = map[string]spec.Schema{"a": pa, "b": strSchema("date", -1)}
		switch verifChoose(3) {
		case 1:
			s.Required = []string{"a"}
		case 2:
			s.Required = []string{"a", "b", "c"}
		}
		if verifBool() {
			s.AdditionalProperties = &spec.SchemaOrBool{Allows: false}
		}
		obj := map[string]interface{}{}
		if verifBool() {
			obj["a"] = genObjValue()
		}
		if verifBool() {
			obj["b"] = "x"
		}
		if verifBool() {
			obj["c"] = 1.0
		}
		d = obj
	case 3: // arrays
		s.Type = spec.StringOrArray{"array"}
		if verifBool() {
			l := genLeafSmall()
			s.Items = &spec.SchemaOrArray{Schema: &l}
		} else {
			s.Items = &spec.SchemaOrArray{Schemas: []spec.Schema{genLeafSmall(), strSchema("date", -1)}}
			s.AdditionalItems = &spec.SchemaOrBool{Allows: false}
		}
		s.MaxItems = ptrI(verifPickInt(1, 2))
		n := verifChoose(4)
		arr := make([]interface{}, 0, n)
		for i := 0; i < n; i++ {
			arr = append(arr, genObjValue())
		}
		d = arr
	case 4: // anyOf / oneOf with failing alternatives
		alts := []spec.Schema{genLeafSmall(), strSchema("", 2)}
		if verifBool() {
			s.AnyOf = alts
		} else {
			s.OneOf = alts
		}
		d = []interface{}{"a", "ab", 1.0, 3.0, nil}[verifChoose(5)]
	case 5: // allOf of two formats, not
		s.AllOf = []spec.Schema{strSchema("date", -1), strSchema("email", -1)}
		if verifBool() {
			l := strSchema("", 3)
			s.Not = &l
		}
		d = []interface{}{"x", "xyz", 1.0}[verifChoose(3)]
	default: // nested: object holding an array of objects
		inner := spec.Schema{}
		inner.Properties = map[string]spec.Schema{"n": genLeafSmall()}
		inner.Required = []string{"n"}
		arr := schemaOfType("array")
		arr.Items = &spec.SchemaOrArray{Schema: &inner}
		s.Properties = map[string]spec.Schema{"list": arr}
		el := map[string]interface{}{}
		if verifBool() {
			el["n"] = genObjValue()
		}
		if verifBool() {
			d = map[string]interface{}{"list": []interface{}{el}}
		} else {
			d = map[string]interface{}{"list": []interface{}{el, "a"}}
		}
	}
	return &s, d
}

// HarnessC04Recycle: inductive step. Every pool hands out stale objects (arbitrary scalar fields,
// poisoned references); the outcome through the recycling entry points must equal the outcome of a
// fresh non-recycling validation; no stale field may be used, nothing may be put twice or used
// after being put, and nothing pooled may stay reachable from what is returned (Inv).
func HarnessC04Recycle() {
	s, d := genMixedPair()
	reg := &verifRegistry{}
	fresh := runFresh(s, d, reg)
	verifHavocPools(true)
	var one, rec verifOutcome
	var err error
	var res *Result
	if verifBool() {
		err = AgainstSchema(s, d, reg)
		one = outcomeOfError(err)
		verifAssert(verifIff(one.valid, fresh.valid), "recycled-oneshot-verdict-equals-fresh")
		verifAssert(verifSameSet(one.errs, fresh.errs), "recycled-oneshot-errors-equal-fresh")
	} else {
		res = NewSchemaValidator(s, nil, "", reg, WithRecycleValidators(true)).Validate(d)
		rec = outcomeOfResult(res)
		verifAssert(sameOutcome(rec, fresh), "recycled-validator-outcome-equals-fresh")
		verifAssert(rec.matches == fresh.matches, "recycled-validator-matchcount-equals-fresh")
	}
	verifHavocPools(false)
	verifPoolInv(err, res)
	verifObserve("valid", fresh.valid)
	verifReach("end")
}

// genProbePair: a small family used as the *second* operation of history harnesses; each member
// borrows from several pools at once (results, schema/props/string/format/number/object validators).
func genProbePair() (*spec.Schema, interface{}) {
	s := spec.Schema{}
	switch verifChoose(4) {
	case 3: // two object validators alive one after the other: a nested object with a required member
		inner := spec.Schema{}
		inner.Required = []string{"a"}
		inner.Properties = map[string]spec.Schema{"b": {}}
		s.Properties = map[string]spec.Schema{"o": inner}
		return &s, map[string]interface{}{"o": map[string]interface{}{"b": 1.0}}
	case 0:
		s.AllOf = []spec.Schema{strSchema("date", -1), strSchema("email", -1)}
		return &s, "2020-01-01"
	case 1:
		num := schemaOfType("number")
		num.Maximum = ptrF(2)
		s.AnyOf = []spec.Schema{num, strSchema("", 2)}
		return &s, genObjValue()
	default:
		s.Type = spec.StringOrArray{"object"}
		s.Properties = map[string]spec.Schema{"a": genLeafSmall()}
		s.Required = []string{"a"}
		obj := map[string]interface{}{}
		if verifBool() {
			obj["a"] = genNum()
		}
		return &s, obj
	}
}

// HarnessC04History: two consecutive operations through real (LIFO) pools; the second must equal fresh.
func HarnessC04History() {
	s1, d1 := genMixedPair()
	reg := &verifRegistry{}
	_ = AgainstSchema(s1, d1, reg)
	s2, d2 := genProbePair()
	got := outcomeOfError(AgainstSchema(s2, d2, reg))
	fresh := runFresh(s2, d2, reg)
	verifAssert(verifIff(got.valid, fresh.valid), "second-call-verdict-equals-fresh")
	verifAssert(verifSameSet(got.errs, fresh.errs), "second-call-errors-equal-fresh")
	if verifTier() > 0 { // thorough: a third operation, through a recycling validator object
		s3, d3 := genProbePair()
		got3 := outcomeOfResult(NewSchemaValidator(s3, nil, "", reg, WithRecycleValidators(true)).Validate(d3))
		fresh3 := runFresh(s3, d3, reg)
		verifAssert(sameOutcome(got3, fresh3), "third-call-outcome-equals-fresh")
	}
	verifObserve("valid", fresh.valid)
	verifReach("end")
}

// HarnessC08Stateless: a validator built without recycling is reused; each call equals a fresh validator.
func HarnessC08Stateless() {
	s, d1 := genMixedPair()
	reg := &verifRegistry{}
	v := NewSchemaValidator(s, nil, "", reg)
	verifFreeze(v, "long-lived validator")
	r1 := outcomeOfResult(v.Validate(d1))
	verifUnfreeze()
	d2 := []interface{}{nil, "ab", 1.0, map[string]interface{}{"a": 3.0}, []interface{}{"a", 3.0}}[verifChoose(5)]
	r2 := outcomeOfResult(v.Validate(d2))
	r1b := outcomeOfResult(v.Validate(d1))
	if verifTier() > 0 { // thorough: a third value, then the second again
		d3 := []interface{}{"a", 3.0}[verifChoose(2)]
		r3 := outcomeOfResult(v.Validate(d3))
		verifAssert(sameOutcome(r3, runFresh(s, d3, reg)), "third-use-equals-fresh")
		verifAssert(sameOutcome(outcomeOfResult(v.Validate(d2)), r2), "repeat-of-second-equals-second")
	}
	f1 := runFresh(s, d1, reg)
	f2 := runFresh(s, d2, reg)
	verifAssert(sameOutcome(r1, f1), "first-use-equals-fresh")
	verifAssert(sameOutcome(r2, f2), "second-use-equals-fresh")
	verifAssert(sameOutcome(r1b, r1), "repeat-equals-first")
	verifObserve("valid1", f1.valid)
	verifReach("end")
}

// HarnessC08MapOrder: the set of messages does not depend on map iteration order (every order of
// the schema's and the instance's maps is a solver-chosen permutation, independently per run).
func HarnessC08MapOrder() {
	s := spec.Schema{}
	s.Properties = map[string]spec.Schema{"a": genLeafSmall(), "b": strSchema("date", 2)}
	s.PatternProperties = map[string]spec.Schema{"^a": genLeafSmall()}
	s.Required = []string{"c", "d"}
	s.AdditionalProperties = &spec.SchemaOrBool{Allows: false}
	obj := map[string]interface{}{"a": genObjValue(), "b": "x"}
	if verifTier() > 0 {
		obj["ab"] = genObjValue()
	}
	reg := &verifRegistry{}
	v := NewSchemaValidator(&s, nil, "", reg)
	canon := outcomeOfResult(v.Validate(obj))
	verifPermMaps(true)
	p1 := outcomeOfResult(v.Validate(obj))
	verifPermMaps(false)
	verifAssert(sameOutcome(p1, canon), "message-set-independent-of-map-order")
	verifReach("end")
}

// HarnessC08Members: a long-lived validator whose schema reaches values through schema-valued
// additionalProperties, patternProperties and items: three values in a row whose offending members
// have different names / positions; every call equals a fresh validator (messages name the right member).
func HarnessC08Members() {
	leaf := schemaOfType("number")
	leaf.Maximum = ptrF(10)
	s := spec.Schema{}
	var pool []interface{}
	switch verifChoose(3) {
	case 0:
		s.Properties = map[string]spec.Schema{"name": schemaOfType("string")}
		s.AdditionalProperties = &spec.SchemaOrBool{Allows: true, Schema: &leaf}
		pool = []interface{}{map[string]interface{}{"name": "x", "a": 1.0}, map[string]interface{}{"name": "x", "b": "no"}, map[string]interface{}{"c": 11.0}, map[string]interface{}{"a": 11.0}}
	case 1:
		s.PatternProperties = map[string]spec.Schema{"^p": leaf}
		pool = []interface{}{map[string]interface{}{"p1": 1.0}, map[string]interface{}{"p2": "no"}, map[string]interface{}{"p3": 11.0}, map[string]interface{}{"p1": 11.0}}
	default:
		s.Items = &spec.SchemaOrArray{Schema: &leaf}
		pool = []interface{}{[]interface{}{1.0}, []interface{}{1.0, "no"}, []interface{}{11.0, 1.0}, []interface{}{1.0, 1.0, 11.0}}
	}
	reg := &verifRegistry{}
	v := NewSchemaValidator(&s, nil, "r", reg)
	for step := 0; step < 3; step++ {
		d := pool[verifChoose(len(pool))]
		got := outcomeOfResult(v.Validate(d))
		fresh := outcomeOfResult(NewSchemaValidator(&s, nil, "r", reg).Validate(d))
		verifAssert(sameOutcome(got, fresh), "reuse-equals-fresh")
	}
	verifReach("end")
}

// HarnessC11Param: the panicking format check inside a recycling parameter / header validator (and
// inside the items of an array parameter); then composite schemas in which two format validators
// are alive at once must still judge each branch with its own format.
func HarnessC11Param() {
	reg := &verifRegistry{panicAt: 1 + verifChoose(2)}
	first := guarded(func() verifOutcome {
		switch verifChoose(3) {
		case 0:
			p := spec.QueryParam("q").Typed("string", "date")
			return outcomeOfResult(NewParamValidator(p, reg, WithRecycleValidators(true)).Validate("boom"))
		case 1:
			h := spec.ResponseHeader().Typed("string", "date")
			return outcomeOfResult(NewHeaderValidator("X", h, reg, WithRecycleValidators(true)).Validate("boom"))
		default:
			p := spec.QueryParam("q").CollectionOf(spec.NewItems().Typed("string", "date"), "csv")
			p.Format = "date"
			return outcomeOfResult(NewParamValidator(p, reg, WithRecycleValidators(true)).Validate([]string{"a", "boom"}))
		}
	})
	verifObserve("panicked", first.panicked)
	s2 := spec.Schema{}
	if verifBool() {
		s2.AllOf = []spec.Schema{strSchema("email", -1), strSchema("date", -1)}
	} else {
		s2.OneOf = []spec.Schema{strSchema("email", -1), strSchema("date", -1)}
	}
	reg2 := &verifRegistry{}
	got := guarded(func() verifOutcome { return outcomeOfError(AgainstSchema(&s2, "2020-01-01", reg2)) })
	fresh := runFresh(&s2, "2020-01-01", reg2)
	verifAssert(!got.panicked, "later-validation-returns-normally")
	verifAssert(verifIff(got.valid, fresh.valid), "later-validation-verdict-equals-fresh")
	verifAssert(verifSameSet(got.errs, fresh.errs), "later-validation-errors-equal-fresh")
	verifReach("end")
}

// HarnessC11Panic: the format checker panics at its k-th call; the caller recovers; the pools must
// still satisfy Inv (engine monitors) and a later validation must equal a fresh one.
func HarnessC11Panic() {
	k := 1 + verifChoose(3+verifTier())
	reg := &verifRegistry{panicAt: k}
	s, d := genMixedPair()
	first := guarded(func() verifOutcome { return outcomeOfError(AgainstSchema(s, d, reg)) })
	verifObserve("panicked", first.panicked)
	verifKF("C11-KF-PANIC-REDEEM", first.panicked)
	// later validation: a probe that borrows from several pools at once
	s2, d2 := genProbePair()
	reg2 := &verifRegistry{}
	got := outcomeOfError(AgainstSchema(s2, d2, reg2))
	fresh := runFresh(s2, d2, reg2)
	verifAssert(verifIff(got.valid, fresh.valid), "later-validation-verdict-equals-fresh")
	verifAssert(verifSameSet(got.errs, fresh.errs), "later-validation-errors-equal-fresh")
	verifReach("end")
}

// HarnessC11Composition: the panicking format check sits in the j-th of three sub-schemas of every
// applicator (oneOf, anyOf, allOf, not, properties, patternProperties, additionalProperties, items,
// tuple items, additionalItems, dependencies), so that the panic passes through a validator that
// still holds children which ran before it and children which have not run yet.
func HarnessC11Composition() {
	k := 1 + verifChoose(2)
	reg := &verifRegistry{panicAt: k}
	date := strSchema("date", -1)
	mail := strSchema("email", -1)
	plain := strSchema("", 1)
	var subs []spec.Schema
	switch verifChoose(3) {
	case 0:
		subs = []spec.Schema{date, plain, mail}
	case 1:
		subs = []spec.Schema{plain, date, mail}
	default:
		subs = []spec.Schema{plain, schemaOfType("number"), date}
	}
	s := spec.Schema{}
	var d interface{} = "2020-01-01"
	switch verifChoose(11) {
	case 0:
		s.OneOf = subs
	case 1:
		s.AnyOf = subs
	case 2:
		s.AllOf = subs
	case 3:
		inner := spec.Schema{}
		inner.OneOf = subs
		s.Not = &inner
	case 4:
		s.Properties = map[string]spec.Schema{"a": subs[0], "b": subs[1], "c": subs[2]}
		d = map[string]interface{}{"a": "x", "b": "y", "c": "z"}
	case 5:
		s.PatternProperties = map[string]spec.Schema{"^a": subs[0], "b$": subs[1], "c": subs[2]}
		d = map[string]interface{}{"abc": "x", "cb": "y"}
	case 6:
		s.Properties = map[string]spec.Schema{"a": subs[1]}
		s.AdditionalProperties = &spec.SchemaOrBool{Allows: true, Schema: &subs[2]}
		d = map[string]interface{}{"a": "x", "b": "y", "c": "z"}
	case 7:
		s.Items = &spec.SchemaOrArray{Schema: &subs[2]}
		d = []interface{}{"x", "y", "z"}
	case 8:
		s.Items = &spec.SchemaOrArray{Schemas: subs}
		d = []interface{}{"x", "y", "z"}
	case 9:
		s.Items = &spec.SchemaOrArray{Schemas: subs[:1]}
		s.AdditionalItems = &spec.SchemaOrBool{Allows: true, Schema: &subs[2]}
		d = []interface{}{"x", "y", "z"}
	default:
		dep := spec.Schema{}
		dep.Properties = map[string]spec.Schema{"b": subs[2]}
		s.Dependencies = spec.Dependencies{"a": spec.SchemaOrStringArray{Schema: &dep}}
		s.AllOf = subs[:2]
		d = map[string]interface{}{"a": "x", "b": "y"}
	}
	recycle := verifBool()
	first := guarded(func() verifOutcome {
		if recycle {
			return outcomeOfError(AgainstSchema(&s, d, reg))
		}
		return outcomeOfResult(NewSchemaValidator(&s, nil, "", reg).Validate(d))
	})
	verifObserve("panicked", first.panicked)
	// later validation: a three-member composition (borrows four schema validators at once)
	s2 := spec.Schema{}
	s2.AllOf = []spec.Schema{plain, strSchema("", 2), strSchema("", 3)}
	d2 := []interface{}{"abc", "ab", 1.0}[verifChoose(3)]
	reg2 := &verifRegistry{}
	got := guarded(func() verifOutcome { return outcomeOfError(AgainstSchema(&s2, d2, reg2)) })
	fresh := runFresh(&s2, d2, reg2)
	verifAssert(!got.panicked, "later-validation-returns-normally")
	verifAssert(verifIff(got.valid, fresh.valid), "later-validation-verdict-equals-fresh")
	verifAssert(verifSameSet(got.errs, fresh.errs), "later-validation-errors-equal-fresh")
	verifReach("end")
}

// HarnessC12ReadOnly: validation never writes to the instance nor to a reference-free schema.
func HarnessC12ReadOnly() {
	s, d := genMixedPair()
	reg := &verifRegistry{}
	verifFreeze(d, "instance")
	verifFreeze(s, "schema")
	_ = AgainstSchema(s, d, reg)
	_ = NewSchemaValidator(s, nil, "", reg).Validate(d)
	_ = NewSchemaValidator(s, nil, "", reg, SwaggerSchema(true)).Validate(d)
	verifUnfreeze()
	verifReach("end")
}

// HarnessC12Degenerate: the degenerate schemas of C06 (invalid regular expressions in pattern and
// patternProperties, empty lists, unknown types and formats ...) and every instance kind, frozen.
func HarnessC12Degenerate() {
	s := genDegenerateSchema()
	if verifBool() { // an invalid expression next to a valid one, below additionalProperties:false, and one level down
		inner := spec.Schema{}
		inner.PatternProperties = map[string]spec.Schema{"^a(?=b)": {}, "^a": schemaOfType("number")}
		s.PatternProperties = map[string]spec.Schema{"(": {}, "^a": {}}
		s.Properties = map[string]spec.Schema{"nested": inner}
		s.AdditionalProperties = &spec.SchemaOrBool{Allows: false}
	}
	var d interface{}
	if verifBool() {
		d = genAnyInstance()
	} else {
		d = map[string]interface{}{"a": 1.0, "zz": 1.0, "nested": map[string]interface{}{"ab": 1.0}}
	}
	reg := &verifRegistry{}
	verifFreeze(d, "instance")
	verifFreeze(&s, "schema")
	_ = AgainstSchema(&s, d, reg)
	_ = NewSchemaValidator(&s, nil, "", reg).Validate(d)
	verifUnfreeze()
	verifReach("end")
}

// HarnessC12Arrays: arrays of up to 4 elements (strings in every relative order, numbers, nested
// values, duplicates) under uniqueItems / enum / items / length keywords, through the schema
// validator, the items-level validators and the exported helpers: no element is moved or replaced.
func HarnessC12Arrays() {
	strPool := []interface{}{"pear", "apple", "fig"}
	mixPool := []interface{}{"pear", 2.0, nil, []interface{}{"b", "a"}, map[string]interface{}{"k": "v"}, 1.0, "apple"}
	var arr []interface{}
	if verifBool() { // strings only, in every relative order and with duplicates
		n := verifChoose(5)
		arr = make([]interface{}, 0, n)
		for i := 0; i < n; i++ {
			arr = append(arr, strPool[verifChoose(3)])
		}
	} else { // values of every kind
		n := verifChoose(4 + verifTier())
		arr = make([]interface{}, 0, n)
		for i := 0; i < n; i++ {
			arr = append(arr, mixPool[verifChoose(5+2*verifTier())])
		}
	}
	s := spec.Schema{}
	s.UniqueItems = verifBool()
	switch verifChoose(4) {
	case 1:
		l := strSchema("", 5)
		s.Items = &spec.SchemaOrArray{Schema: &l}
	case 2:
		s.Enum = []interface{}{[]interface{}{"apple", "fig", "pear"}, []interface{}{"pear", "apple", "fig"}}
	case 3:
		s.MinItems, s.MaxItems = ptrI(1), ptrI(3)
	}
	reg := &verifRegistry{}
	verifFreeze(arr, "instance")
	verifFreeze(&s, "schema")
	_ = AgainstSchema(&s, arr, reg)
	_ = NewSchemaValidator(&s, nil, "", reg, SwaggerSchema(true)).Validate(arr)
	_ = UniqueItems("p", "body", arr)
	_ = Enum("p", "body", arr, s.Enum)
	_ = EnumCase("p", "body", arr, s.Enum, false)
	// the same array as the value of a simple array parameter / header / items
	p := spec.QueryParam("q").CollectionOf(spec.NewItems().Typed("string", ""), "csv")
	p.UniqueItems = s.UniqueItems
	_ = NewParamValidator(p, reg).Validate(arr)
	h := spec.ResponseHeader().CollectionOf(spec.NewItems().Typed("string", ""), "csv")
	h.UniqueItems = s.UniqueItems
	_ = NewHeaderValidator("X", h, reg).Validate(arr)
	verifUnfreeze()
	verifReach("end")
}

// HarnessC12LongArrays: arrays long enough to cross size thresholds (9, 17, 33, 65 or 129 elements):
// distinct strings in descending order (so any sort moves something), optionally one duplicate pair and
// optionally one non-string element at solver-chosen positions, under uniqueItems, through the schema
// validators, the helper and the csv parameter / header validators: no element is moved or replaced.
func HarnessC12LongArrays() {
	n := []int{9, 17, 33, 65, 129}[verifChoose(5)]
	arr := make([]interface{}, 0, n)
	for i := 0; i < n; i++ {
		arr = append(arr, "w"+string(rune('z'-i/26))+string(rune('z'-i%26)))
	}
	switch verifChoose(3) {
	case 1: // a duplicate pair: last element repeats the first or the middle one
		arr[n-1] = arr[verifChoose(2)*(n/2)]
	case 2: // one element that is not a string, first, middle or last
		arr[verifChoose(3)*(n-1)/2] = 2.0
	}
	s := spec.Schema{}
	s.UniqueItems = true
	if verifBool() {
		l := strSchema("", 5)
		s.Items = &spec.SchemaOrArray{Schema: &l}
	}
	reg := &verifRegistry{}
	verifFreeze(arr, "instance")
	verifFreeze(&s, "schema")
	_ = AgainstSchema(&s, arr, reg)
	_ = NewSchemaValidator(&s, nil, "", reg, SwaggerSchema(true)).Validate(arr)
	_ = UniqueItems("p", "body", arr)
	p := spec.QueryParam("q").CollectionOf(spec.NewItems().Typed("string", ""), "csv")
	p.UniqueItems = true
	_ = NewParamValidator(p, reg).Validate(arr)
	h := spec.ResponseHeader().CollectionOf(spec.NewItems().Typed("string", ""), "csv")
	h.UniqueItems = true
	_ = NewHeaderValidator("X", h, reg).Validate(arr)
	verifUnfreeze()
	verifReach("end")
}

// HarnessC17Composite: nil <=> valid; otherwise a CompositeError, code 422, whose messages are exactly
// the result's messages, without duplicates; every field-level error is named by an extension of the root path.
func HarnessC17Composite() {
	s, d := genMixedPair()
	checkComposite(s, d)
}

// HarnessC17Important: the rejections that carry the internal "IMPORTANT!" tag (a forbidden member
// called headers that holds a $ref), alone and below allOf / anyOf / oneOf / properties, where the
// tagged message and its stripped copy travel together.
func HarnessC17Important() {
	inner := spec.Schema{}
	inner.AdditionalProperties = &spec.SchemaOrBool{Allows: false}
	inner.Properties = map[string]spec.Schema{"ok": {}}
	s := &spec.Schema{}
	wrapped := false
	switch verifChoose(6) {
	case 0:
		s = &inner
	case 1:
		s.AllOf = []spec.Schema{inner}
	case 2:
		s.AnyOf = []spec.Schema{inner, strSchema("", 1)}
	case 3:
		s.OneOf = []spec.Schema{inner, strSchema("", 1)}
	case 4:
		s.AllOf = []spec.Schema{{}, inner}
		s.AdditionalProperties = &spec.SchemaOrBool{Allows: false}
	default:
		s.Properties = map[string]spec.Schema{"w": inner}
		wrapped = true
	}
	var hv interface{}
	switch verifChoose(5) {
	case 0:
		hv = map[string]interface{}{"X": map[string]interface{}{"$ref": "#/definitions/h"}}
	case 1:
		hv = map[string]interface{}{"X": map[string]interface{}{"$ref": "#/a"}, "Y": map[string]interface{}{"$ref": "#/a"}}
	case 2:
		hv = map[string]interface{}{"X": map[string]interface{}{"$ref": 1.0}, "Y": nil}
	case 3:
		hv = map[string]interface{}{"X": map[string]interface{}{"type": "string"}}
	default:
		hv = "x"
	}
	var d interface{} = map[string]interface{}{"headers": hv, "ok": 1.0}
	if wrapped {
		d = map[string]interface{}{"w": d}
	}
	checkComposite(s, d)
}

// HarnessC17OneOf: oneOf / anyOf of three alternatives in every order (failing alternatives before,
// between and after the valid ones; none, one or several valid): the one-shot composite lists exactly
// the messages of the validator object's result.
func HarnessC17OneOf() {
	leaves := []spec.Schema{schemaOfType("string"), schemaOfType("integer"), schemaOfType("number"), strSchema("", 3), {}}
	s := &spec.Schema{}
	alts := []spec.Schema{leaves[verifChoose(5)], leaves[verifChoose(5)], leaves[verifChoose(5)]}
	if verifBool() {
		s.OneOf = alts
	} else {
		s.AnyOf = alts
	}
	d := []interface{}{3.0, 3.5, "ab", "abcd", nil}[verifChoose(5)]
	if verifBool() { // ... also one level down
		inner := *s
		s = &spec.Schema{}
		s.Properties = map[string]spec.Schema{"a": inner}
		d = map[string]interface{}{"a": d}
	}
	checkComposite(s, d)
}

func checkComposite(s *spec.Schema, d interface{}) {
	reg := &verifRegistry{}
	res := NewSchemaValidator(s, nil, "", reg).Validate(d)
	err := AgainstSchema(s, d, reg)
	verifAssert((err == nil) == res.IsValid(), "nil-iff-valid")
	verifAssert(res.IsValid() == (len(res.Errors) == 0), "valid-iff-no-errors")
	if err != nil {
		ce, ok := err.(*errors.CompositeError)
		verifAssert(ok, "composite-error")
		if ok {
			verifAssert(ce.Code() == 422, "code-422")
			verifAssert(verifSameSet(msgsOf(ce.Errors), msgsOf(res.Errors)), "composite-lists-the-result-messages")
			verifAssert(verifNoDup(msgsOf(ce.Errors)), "no-duplicate-messages")
		}
	}
	verifAssert(verifNoDup(msgsOf(res.Errors)), "no-duplicate-messages-in-result")
	verifObserve("valid", res.IsValid())
	verifReach("end")
}

func errorNames(es []error) []string {
	var out []string
	for _, e := range es {
		if v, ok := e.(*errors.Validation); ok {
			out = append(out, v.Name)
		}
	}
	return out
}

// locationsOf lists the names that designate an existing location of the instance (the root, its
// members and indices, recursively) or a missing member listed in required of an existing object.
func locationsOf(root string, d interface{}, required []string) []string {
	out := []string{root}
	join := func(p string) string {
		if root == "" {
			return p
		}
		return root + "." + p
	}
	switch x := d.(type) {
	case map[string]interface{}:
		for k, v := range x {
			out = append(out, locationsOf(join(k), v, required)...)
		}
		for _, r := range required {
			out = append(out, join(r))
		}
	case []interface{}:
		for i, v := range x {
			out = append(out, locationsOf(join(itoa(i)), v, required)...)
		}
	}
	return out
}

func itoa(i int) string { return string(rune('0' + i)) }

// HarnessC17Location: exactly one leaf of a nested instance violates its schema; some error must be
// named root + the path of that leaf (or of the missing required member).
func HarnessC17Location() {
	root := []string{"", "r", "a.b"}[verifChoose(3)]
	leaf := schemaOfType("number")
	leaf.Maximum = ptrF(2)
	bad := verifPickFloat(3, 4)
	good := verifPickFloat(0, 1, 2)
	s := spec.Schema{}
	var d interface{}
	var want string
	join := func(p string) string {
		if root == "" {
			return p
		}
		return root + "." + p
	}
	want2 := ""
	perm := false
	switch verifChoose(9 + 2*verifTier()) {
	case 8: // several members go through additionalProperties, in every map order: the two offending ones are named
		s.AdditionalProperties = &spec.SchemaOrBool{Allows: true, Schema: &leaf}
		d = map[string]interface{}{"e1": bad, "e2": good, "e3": bad}
		want, want2 = join("e1"), join("e3")
		perm = true
	case 9: // thorough: three levels: property -> tuple position -> additionalProperties member
		deep := spec.Schema{}
		deep.AdditionalProperties = &spec.SchemaOrBool{Allows: true, Schema: &leaf}
		tup := spec.Schema{}
		tup.Items = &spec.SchemaOrArray{Schemas: []spec.Schema{{}, deep}}
		s.Properties = map[string]spec.Schema{"t": tup}
		d = map[string]interface{}{"t": []interface{}{good, map[string]interface{}{"k": bad, "j": good}}}
		want = join("t.1.k")
	case 10: // thorough: pattern property -> property -> missing required member
		inner := spec.Schema{}
		inner.Required = []string{"need"}
		mid := spec.Schema{}
		mid.Properties = map[string]spec.Schema{"o": inner}
		s.PatternProperties = map[string]spec.Schema{"^p": mid}
		d = map[string]interface{}{"p9": map[string]interface{}{"o": map[string]interface{}{"x": good}}}
		want = join("p9.o.need")
	case 0: // properties
		s.Properties = map[string]spec.Schema{"x": leaf, "y": leaf}
		d = map[string]interface{}{"x": good, "y": bad}
		want = join("y")
	case 1: // patternProperties
		s.PatternProperties = map[string]spec.Schema{"^p": leaf}
		d = map[string]interface{}{"p1": bad, "q": bad, "p2": good}
		want = join("p1")
	case 2: // additionalProperties schema
		s.Properties = map[string]spec.Schema{"x": leaf}
		s.AdditionalProperties = &spec.SchemaOrBool{Allows: true, Schema: &leaf}
		d = map[string]interface{}{"x": good, "extra": bad}
		want = join("extra")
	case 3: // tuple items
		s.Items = &spec.SchemaOrArray{Schemas: []spec.Schema{leaf, leaf, leaf}}
		d = []interface{}{good, bad, good}
		want = join("1")
	case 4: // missing required member of a nested object
		inner := spec.Schema{}
		inner.Required = []string{"need"}
		s.Properties = map[string]spec.Schema{"o": inner}
		d = map[string]interface{}{"o": map[string]interface{}{"other": good}}
		want = join("o.need")
	case 6: // a member matched by two pattern properties, failing both (different messages)
		other := schemaOfType("number")
		other.MultipleOf = ptrF(7)
		s.PatternProperties = map[string]spec.Schema{"^p": leaf, "1$": other}
		d = map[string]interface{}{"p1": bad, "q2": good}
		want = join("p1")
	case 7: // additionalItems schema: one element beyond a one-element tuple, at a solver-chosen position of the tail
		s.Items = &spec.SchemaOrArray{Schemas: []spec.Schema{leaf}}
		s.AdditionalItems = &spec.SchemaOrBool{Allows: true, Schema: &leaf}
		arr := []interface{}{good, good, good, good}
		pos := 1 + verifChoose(3)
		arr[pos] = bad
		d = arr
		want = join(itoa(pos))
	default: // two levels: property holding a tuple
		arr := spec.Schema{}
		arr.Items = &spec.SchemaOrArray{Schemas: []spec.Schema{leaf, leaf}}
		s.Properties = map[string]spec.Schema{"t": arr}
		d = map[string]interface{}{"t": []interface{}{good, bad}}
		want = join("t.1")
	}
	reg := &verifRegistry{}
	verifPermMaps(perm)
	res := NewSchemaValidator(&s, nil, root, reg).Validate(d)
	verifPermMaps(false)
	names := errorNames(res.Errors)
	verifAssert(!res.IsValid(), "single-fault-is-rejected")
	found := false
	found2 := want2 == ""
	for _, n := range names {
		found = verifOr(found, verifStrEq(n, want))
		if root == "" {
			// don't-care cell: with an empty root the library names non-"properties" members ".x";
			// whether that is "an extension of the root path" is left open by the statement
			found = verifOr(found, verifStrEq(n, "."+want))
		}
		if want2 != "" && (n == want2 || (root == "" && n == "."+want2)) {
			found2 = true
		}
	}
	verifAssert(found2, "the-second-offending-member-is-named-too")
	verifObserve("want", want)
	sortedNames := append([]string{}, names...)
	sort.Strings(sortedNames) // the order of errors follows Go's map order
	verifObserve("names", sortedNames)
	verifAssert(found, "an-error-names-the-offending-member")
	// every field-level error is named by the root path or an extension of it that designates an
	// existing location of the instance (or the missing required member)
	locs := locationsOf(root, d, []string{"need"})
	for _, n := range names {
		okn := false
		for _, l := range locs {
			if n == l || (root == "" && n == "."+l) {
				okn = true
			}
		}
		verifAssert(okn, "every-error-name-designates-a-location-of-the-instance")
	}
	verifReach("end")
}
