//go:build verif

package validate

// C20 — results combine as ordered sets of messages with additive match counts.
// A program of k operations, each operation and its operands solver-chosen, is run on real Results
// and on a plain ordered-set model; after every step all observable queries must agree.

import (
	stderrors "errors"
)

type refResult struct {
	errs, warns []int // message ids in first-occurrence order
	matches     int
}

func refAdd(xs []int, ids ...int) []int {
	for _, id := range ids {
		if id < 0 {
			continue // nil error
		}
		found := false
		for _, x := range xs {
			if x == id {
				found = true
			}
		}
		if !found {
			xs = append(xs, id)
		}
	}
	return xs
}

var c20Msgs = []string{"m1", "m2", "m3"}

func c20Err(id int) error {
	if id < 0 {
		return nil
	}
	return stderrors.New(c20Msgs[id])
}

func c20Same(r *Result, m *refResult) bool {
	if len(r.Errors) != len(m.errs) || len(r.Warnings) != len(m.warns) {
		return false
	}
	for i, e := range r.Errors {
		if e.Error() != c20Msgs[m.errs[i]] {
			return false
		}
	}
	for i, e := range r.Warnings {
		if e.Error() != c20Msgs[m.warns[i]] {
			return false
		}
	}
	return r.MatchCount == m.matches &&
		r.IsValid() == (len(m.errs) == 0) && r.HasErrors() == (len(m.errs) > 0) &&
		r.HasWarnings() == (len(m.warns) > 0) && r.HasErrorsOrWarnings() == (len(m.errs)+len(m.warns) > 0)
}

func c20New(pooled bool) *Result {
	if pooled {
		return pools.poolOfResults.BorrowResult()
	}
	return new(Result)
}

// HarnessC20Algebra: 3 (quick) / 4 (thorough) operations over results r0, r1 (targets) and r2 (operand only);
// 15 operation instances per target and step; messages from {m1, m2, nil}; pooled and plain results.
func HarnessC20Algebra() {
	steps := 3 // longer histories are covered by the inductive step harness below
	pooled := verifBool()
	var rs [3]*Result
	var ms [3]*refResult
	for i := range rs {
		rs[i] = c20New(pooled)
		ms[i] = &refResult{}
	}
	// the operand-only result holds three errors and three warnings added one at a time
	// (so that its slices have spare capacity, as results built by validators do)
	for _, id := range []int{0, 1, 2} {
		rs[2].AddErrors(c20Err(id))
		rs[2].AddWarnings(c20Err(id))
	}
	rs[2].Inc()
	ms[2] = &refResult{errs: []int{0, 1, 2}, warns: []int{0, 1, 2}, matches: 1}
	var nilRes *Result
	verifAssert(nilRes.IsValid() && !nilRes.HasErrors() && !nilRes.HasWarnings() && !nilRes.HasErrorsOrWarnings(), "nil-result-queries")
	for step := 0; step < steps; step++ {
		t := verifChoose(2)
		op := verifChoose(15)
		o := 1 - t // the other target
		if op == 8 || op == 10 || op == 12 {
			o = 2
		}
		switch {
		case op <= 2: // AddErrors(one of m1, m2, nil)
			rs[t].AddErrors(c20Err(op - 1))
			ms[t].errs = refAdd(ms[t].errs, op-1)
		case op == 3: // duplicates within one call, and a nil in between
			rs[t].AddErrors(c20Err(0), nil, c20Err(0), c20Err(2))
			ms[t].errs = refAdd(ms[t].errs, 0, -1, 0, 2)
		case op <= 6:
			rs[t].AddWarnings(c20Err(op - 5))
			ms[t].warns = refAdd(ms[t].warns, op-5)
		case op == 7 || op == 8:
			rs[t].Merge(rs[o])
			ms[t].errs = refAdd(ms[t].errs, ms[o].errs...)
			ms[t].warns = refAdd(ms[t].warns, ms[o].warns...)
			ms[t].matches += ms[o].matches
		case op == 9 || op == 10:
			rs[t].MergeAsErrors(rs[o])
			ms[t].errs = refAdd(ms[t].errs, ms[o].errs...)
			ms[t].errs = refAdd(ms[t].errs, ms[o].warns...)
			ms[t].matches += ms[o].matches
		case op == 11 || op == 12:
			rs[t].MergeAsWarnings(rs[o])
			ms[t].warns = refAdd(ms[t].warns, ms[o].errs...)
			ms[t].warns = refAdd(ms[t].warns, ms[o].warns...)
			ms[t].matches += ms[o].matches
		case op == 13:
			rs[t].Merge(nil)
			rs[t].MergeAsErrors(nil)
			rs[t].MergeAsWarnings(nil)
		default:
			rs[t].Inc()
			ms[t].matches++
		}
		if op >= 7 && op <= 12 && pooled {
			// a pooled operand is redeemed by the merge and must not be used again: new identity
			rs[o] = c20New(true)
			ms[o] = &refResult{}
		}
		verifAssert(c20Same(rs[0], ms[0]) && c20Same(rs[1], ms[1]) && c20Same(rs[2], ms[2]), "result-equals-ordered-set-model")
	}
	// no aliasing: the observed result takes one more message of its own, then every operand is
	// changed; neither may alter what the observed result holds
	if !pooled {
		keep := verifChoose(2)
		c20Msgs = append(c20Msgs[:3:3], "own")
		rs[keep].AddErrors(stderrors.New("own"))
		rs[keep].AddWarnings(stderrors.New("own"))
		ms[keep].errs = refAdd(ms[keep].errs, 3)
		ms[keep].warns = refAdd(ms[keep].warns, 3)
		for i := range rs {
			if i != keep {
				rs[i].AddErrors(stderrors.New("late"))
				rs[i].AddWarnings(stderrors.New("late"))
				rs[i].Inc()
			}
		}
		verifAssert(c20Same(rs[keep], ms[keep]), "later-change-to-an-operand-does-not-alter-the-merged-result")
	}
	verifReach("end")
}

// genC20State: an arbitrary valid state of a Result (the representation invariant is "no message
// twice in a list"): errors and warnings are duplicate-free sequences of up to maxLen messages
// drawn from {m1, m2, m3}, the match count is any int; the slices optionally have spare capacity.
func genC20State(maxLen int, pooled bool) (*Result, *refResult) {
	r := c20New(pooled)
	m := &refResult{}
	// every duplicate-free sequence over {0,1,2} up to the length bound, in every order
	seqs := [][]int{{}, {0}, {1}, {2}, {0, 1}, {1, 0}, {0, 2}, {2, 0}, {1, 2}, {2, 1},
		{0, 1, 2}, {0, 2, 1}, {1, 0, 2}, {1, 2, 0}, {2, 0, 1}, {2, 1, 0}}
	count := []int{1, 4, 10, 16}[maxLen]
	pickList := func(n int) []int { return append([]int{}, seqs[verifChoose(n)]...) }
	m.errs = pickList(count)
	m.warns = pickList([]int{1, 4, 10, 16}[maxLen-1]) // warnings one shorter, to keep the product of states manageable
	spare := verifBool()
	mkList := func(ids []int) []error {
		var out []error
		if spare {
			out = make([]error, 0, len(ids)+2)
		}
		for _, id := range ids {
			out = append(out, c20Err(id))
		}
		return out
	}
	r.Errors = mkList(m.errs)
	r.Warnings = mkList(m.warns)
	k := int(verifInt16())
	r.MatchCount = k
	m.matches = k
	return r, m
}

// HarnessC20Step: ONE operation from an arbitrary valid pre-state of the target and of the operand.
// Together with "every operation preserves the invariant" (asserted: the post-state equals a
// duplicate-free model state) this covers histories of any length by induction.
func HarnessC20Step() {
	maxLen := 2 + verifTier()
	pooled := verifBool()
	rt, mt := genC20State(maxLen, pooled)
	op := verifChoose(12)
	var ro *Result
	var mo *refResult
	if op >= 6 && op <= 9 {
		ro, mo = genC20State(maxLen, pooled)
	}
	switch {
	case op <= 1: // AddErrors of one message or nil
		id := verifChoose(4) - 1
		rt.AddErrors(c20Err(id))
		mt.errs = refAdd(mt.errs, id)
	case op == 2: // AddErrors of three messages in one call, duplicates and nil allowed
		a, b, c := verifChoose(4)-1, verifChoose(4)-1, verifChoose(4)-1
		rt.AddErrors(c20Err(a), c20Err(b), c20Err(c))
		mt.errs = refAdd(mt.errs, a, b, c)
	case op == 3:
		id := verifChoose(4) - 1
		rt.AddWarnings(c20Err(id))
		mt.warns = refAdd(mt.warns, id)
	case op == 4:
		a, b, c := verifChoose(4)-1, verifChoose(4)-1, verifChoose(4)-1
		rt.AddWarnings(c20Err(a), c20Err(b), c20Err(c))
		mt.warns = refAdd(mt.warns, a, b, c)
	case op == 5:
		rt.Inc()
		mt.matches++
	case op == 6:
		rt.Merge(ro)
		mt.errs = refAdd(mt.errs, mo.errs...)
		mt.warns = refAdd(mt.warns, mo.warns...)
		mt.matches += mo.matches
	case op == 7:
		rt.MergeAsErrors(ro)
		mt.errs = refAdd(mt.errs, mo.errs...)
		mt.errs = refAdd(mt.errs, mo.warns...)
		mt.matches += mo.matches
	case op == 8:
		rt.MergeAsWarnings(ro)
		mt.warns = refAdd(mt.warns, mo.errs...)
		mt.warns = refAdd(mt.warns, mo.warns...)
		mt.matches += mo.matches
	case op == 9: // merge with itself is not offered for pooled results (the operand is redeemed)
		if pooled {
			verifAssume(false)
		}
		_ = ro
		rt.Merge(rt)
		mt.matches += mt.matches
	case op == 10:
		rt.Merge(nil)
		rt.MergeAsErrors(nil)
		rt.MergeAsWarnings(nil)
	default:
		var nilRes *Result
		verifAssert(nilRes.IsValid() && !nilRes.HasErrors() && !nilRes.HasWarnings(), "nil-result-queries")
	}
	verifAssert(c20Same(rt, mt), "post-state-equals-ordered-set-model")
	if mo != nil && !pooled {
		// the operand is unchanged, and a later change to it does not reach the target
		verifAssert(c20Same(ro, mo), "operand-unchanged")
		// (the target first takes one more message of its own: with shared backing arrays the
		// operand's next append would overwrite it)
		c20Msgs = append(c20Msgs[:3:3], "own")
		rt.AddErrors(stderrors.New("own"))
		rt.AddWarnings(stderrors.New("own"))
		mt.errs = refAdd(mt.errs, 3)
		mt.warns = refAdd(mt.warns, 3)
		ro.AddErrors(stderrors.New("late"))
		ro.AddWarnings(stderrors.New("late"))
		ro.Inc()
		verifAssert(c20Same(rt, mt), "later-change-to-the-operand-does-not-alter-the-target")
	}
	verifReach("end")
}
