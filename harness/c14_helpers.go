//go:build verif

package validate

// C14 — the exported value helpers implement their textbook definitions for every input; pure.

import (
	"context"
)

// HarnessC14Lengths: string lengths count code points (abstract string: rune count and byte length
// are independent solver variables with runes <= bytes <= 4*runes, so a byte-length implementation is refuted).
func HarnessC14Lengths() {
	s := verifAbsStr("s")
	n := verifInt64()
	gotMin := MinLength("p", "body", s, n) != nil
	gotMax := MaxLength("p", "body", s, n) != nil
	r := verifRuneCount(s)
	verifAssert(gotMin == (r < n), "minlength-counts-code-points")
	verifAssert(gotMax == (r > n), "maxlength-counts-code-points")
	// purity: same arguments, same answer
	verifAssert((MinLength("p", "body", s, n) != nil) == gotMin, "minlength-pure")
	verifReach("end")
}

// HarnessC14LengthsBytes: the same on strings of up to 4 arbitrary bytes (well-formed UTF-8 or not):
// every byte that does not start a well-formed sequence is one code point, as Go counts them.
func HarnessC14LengthsBytes() {
	s := verifBytesStr(4 + 2*verifTier())
	n := int64(verifChoose(6 + 2*verifTier()))
	gotMin := MinLength("p", "body", s, n) != nil
	gotMax := MaxLength("p", "body", s, n) != nil
	r := verifRuneCount(s)
	verifAssert(gotMin == (r < n), "minlength-counts-code-points")
	verifAssert(gotMax == (r > n), "maxlength-counts-code-points")
	verifReach("end")
}

// HarnessC14Items: MinItems / MaxItems compare sizes.
func HarnessC14Items() {
	size, n := verifInt64(), verifInt64()
	verifAssert((MinItems("p", "q", size, n) != nil) == (size < n), "minitems")
	verifAssert((MaxItems("p", "q", size, n) != nil) == (size > n), "maxitems")
	verifReach("end")
}

// HarnessC14Pattern: Pattern is a Go-regexp search; an invalid pattern is an error.
func HarnessC14Pattern() {
	pats := []string{"^a", "b$", "a.c", "", "(", "[a-", "a{2,1}"}
	subs := []string{"", "a", "ab", "xaby", "a\nc", "aéc"}
	p := pats[verifChoose(len(pats))]
	s := subs[verifChoose(len(subs))]
	got := Pattern("p", "q", s, p) != nil
	want := !verifMatches(p, s) // false when the pattern does not compile
	verifAssert(got == want, "pattern-is-go-regexp-search-and-invalid-is-error")
	verifAssert((Pattern("p", "q", s, p) != nil) == got, "pattern-pure")
	verifReach("end")
}

// zero values of many kinds, for Required / ReadOnly
func genZeroOrNot() (interface{}, bool) {
	switch verifChoose(16) {
	case 0:
		v := verifInt64()
		return v, v == 0
	case 1:
		v := verifUint8()
		return v, v == 0
	case 2:
		v := verifFloat64()
		verifAssume(v == v)
		return v, v == 0 // +0 and -0 are both zero values for DeepEqual? see oracle note below
	case 3:
		v := verifBool()
		return v, !v
	case 4:
		return "", true
	case 5:
		return "x", false
	case 6:
		return nil, true
	case 7:
		var p *int
		return p, true
	case 8:
		x := 0
		return &x, false
	case 9:
		var s []string
		return s, true
	case 10:
		return []string{}, false // non-nil empty slice is not the zero value
	case 11:
		return []string{"a"}, false
	case 12:
		var m map[string]interface{}
		return m, true
	case 13:
		return map[string]interface{}{}, false
	case 14:
		v := verifInt32()
		return v, v == 0
	default:
		v := verifFloat32()
		verifAssume(v == v)
		return v, v == 0
	}
}

// kfC14NegZero: -0.0 is not DeepEqual to the zero value +0.0? (reflect.DeepEqual uses ==, so it is equal).
// No region needed: DeepEqual(0.0, -0.0) is true.

// HarnessC14Required: Required rejects exactly zero values; RequiredString / RequiredNumber likewise.
func HarnessC14Required() {
	v, isZero := genZeroOrNot()
	got := Required("p", "q", v) != nil
	verifAssert(got == isZero, "required-rejects-exactly-zero-values")
	verifAssert((Required("p", "q", v) != nil) == got, "required-pure")
	f := verifFloat64()
	verifAssume(f == f)
	verifAssert((RequiredNumber("p", "q", f) != nil) == (f == 0), "requirednumber")
	s := []string{"", "a", " "}[verifChoose(3)]
	verifAssert((RequiredString("p", "q", s) != nil) == (s == ""), "requiredstring")
	verifReach("end")
}

// HarnessC14ReadOnly: ReadOnly rejects exactly non-zero values, and only in a request context.
func HarnessC14ReadOnly() {
	v, isZero := genZeroOrNot()
	var ctx context.Context
	isRequest := false
	switch verifChoose(4) {
	case 0:
		ctx = context.Background()
	case 1:
		ctx = WithOperationRequest(context.Background())
		isRequest = true
	case 2:
		ctx = WithOperationResponse(context.Background())
	default:
		ctx = context.WithValue(context.Background(), operationTypeKey, "request") // foreign value type
	}
	got := ReadOnly(ctx, "p", "q", v) != nil
	verifAssert(got == (isRequest && !isZero), "readonly-rejects-nonzero-in-request-context-only")
	verifReach("end")
}

// HarnessC14FormatOf: unknown names are rejected; otherwise the registry decides.
func HarnessC14FormatOf() {
	name := []string{"date", "nope", ""}[verifChoose(3)]
	s := []string{"", "x"}[verifChoose(2)]
	reg := &verifRegistry{}
	got := FormatOf("p", "q", name, s, reg) != nil
	want := verifOr(name == "", verifNot(verifKnownFmt(name)), verifNot(verifFmtOK(name, s)))
	verifAssert(got == want, "formatof-follows-the-registry")
	verifReach("end")
}

// typed numbers for Enum / UniqueItems: equal as mathematical values
func genTypedNum(x int64) interface{} {
	switch verifChoose(5) {
	case 0:
		return x
	case 1:
		return float64(x)
	case 2:
		return int32(x)
	case 3:
		return uint8(x)
	default:
		return float32(x)
	}
}

// HarnessC14Enum: Enum uses deep value equality, treating numerically equal numbers of different Go types as equal.
// Values are small non-negative integers (exact in every carrier), a fractional float, strings, nil.
func HarnessC14Enum() {
	x := verifPickInt(0, 1, 2, 65)
	y := verifPickInt(0, 1, 2, 65)
	var data, member interface{}
	var equal bool
	switch verifChoose(6) {
	case 5: // nil data and / or a nil member: nil equals nil and nothing else
		opts := []interface{}{nil, float64(1), "a", []interface{}{}}
		i, j := verifChoose(4), verifChoose(4)
		verifAssume(i == 0 || j == 0)
		data, member = opts[i], opts[j]
		equal = i == j
	case 0: // number vs number of possibly different Go type
		data, member = genTypedNum(x), genTypedNum(y)
		equal = x == y
	case 1: // fractional data vs integer member: never equal
		data, member = float64(x)+0.5, genTypedNum(y)
		equal = false
		verifKF("C14-KF-ENUM-CONVERT", true)
	case 2: // string vs string
		a, b := []string{"a", "A", "b"}[verifChoose(3)], []string{"a", "A", "b"}[verifChoose(3)]
		data, member = a, b
		equal = a == b
	case 3: // number vs string: never equal (an integer is not converted into the rune it numbers)
		data, member = genTypedNum([]int64{0, 1, 65}[verifChoose(3)]), []string{"A", "1", ""}[verifChoose(3)]
		equal = false
	default: // nested slices
		data, member = []interface{}{float64(x)}, []interface{}{float64(y)}
		equal = x == y
	}
	got := Enum("p", "q", data, []interface{}{member}) == nil
	verifObserve("got", got)
	verifAssert(got == equal, "enum-membership-is-value-equality")
	gotCase := EnumCase("p", "q", data, []interface{}{member}, true) == nil
	verifAssert(gotCase == got, "enumcase-sensitive-equals-enum")
	verifReach("end")
}

// HarnessC14EnumFold: EnumCase(caseSensitive=false) additionally folds case for strings.
func HarnessC14EnumFold() {
	strs := []string{"a", "A", "b", "ǅ", "ǆ", "", "σ", "ς", "Σ", "ſ", "s", "İ", "i", "K", "K"}
	a, b := strs[verifChoose(len(strs))], strs[verifChoose(len(strs))]
	got := EnumCase("p", "q", a, []interface{}{b}, false) == nil
	verifAssert(got == verifFoldEq(a, b), "enumcase-folds-case")
	verifReach("end")
}

// HarnessC14Unique: UniqueItems reports a duplicate exactly when two elements are deeply equal
// (same Go type: the weaker reading; cross-type numeric equality is left unconstrained).
func HarnessC14Unique() {
	n := verifChoose(4)
	xs := make([]interface{}, 0, n)
	vals := make([]int64, 0, n)
	dup := false
	for i := 0; i < n; i++ {
		v := verifPickInt(0, 1, 2)
		for _, w := range vals {
			dup = verifOr(dup, v == w)
		}
		vals = append(vals, v)
		xs = append(xs, float64(v))
	}
	got := UniqueItems("p", "q", xs) != nil
	verifAssert(got == dup, "uniqueitems-duplicate-scan")
	verifAssert(UniqueItems("p", "q", 3) == nil, "uniqueitems-non-slice-ignored")
	verifReach("end")
}

type verifC14Box struct {
	P *int64
	S string
}

// HarnessC14UniquePointers: deep value equality looks through pointers: 2 or 3 elements that are distinct
// pointers to int64 values (typed []*int64, []interface{} of pointers, or comparable structs holding such a
// pointer): a duplicate is reported exactly when two pointees are equal (== on the elements would
// compare identities and miss it).
func HarnessC14UniquePointers() {
	n := 2 + verifChoose(2)
	vals := make([]int64, 0, n)
	ps := make([]*int64, 0, n)
	dup := false
	for i := 0; i < n; i++ {
		v := verifPickInt(0, 1, 2)
		for _, w := range vals {
			dup = verifOr(dup, v == w)
		}
		vals = append(vals, v)
		p := new(int64)
		*p = v
		ps = append(ps, p)
	}
	var data interface{}
	switch verifChoose(3) {
	case 0:
		data = ps
	case 1:
		xs := make([]interface{}, 0, n)
		for _, p := range ps {
			xs = append(xs, p)
		}
		data = xs
	default:
		xs := make([]interface{}, 0, n)
		for _, p := range ps {
			xs = append(xs, verifC14Box{P: p, S: "k"})
		}
		data = xs
	}
	got := UniqueItems("p", "q", data) != nil
	verifAssert(got == dup, "uniqueitems-deep-equality-through-pointers")
	verifReach("end")
}

// HarnessC14UniqueMixed: two or three elements that are numbers carried by possibly different Go
// types, strings spelling numbers, or one-element slices of those: a duplicate is reported exactly
// when two elements are equal as values (numerically equal numbers are equal whatever carries them;
// a number never equals a string).
func HarnessC14UniqueMixed() {
	n := 2 + verifChoose(1+verifTier())
	xs := make([]interface{}, 0, n)
	type el struct {
		v      int64
		shape  int // 0 number, 1 string, 2 slice holding a number
		sameGo bool
	}
	var els []el
	dup := false
	mixed := false
	for i := 0; i < n; i++ {
		v := verifPickInt(0, 1, 2)
		shape := verifChoose(3)
		var x interface{}
		kind := verifChoose(5)
		switch shape {
		case 0:
			x = []interface{}{v, float64(v), int32(v), uint8(v), float32(v)}[kind]
		case 1:
			x = []string{"0", "1", "2"}[v]
		default:
			x = []interface{}{[]interface{}{v, float64(v), int32(v), uint8(v), float32(v)}[kind]}
		}
		for j, w := range els {
			if w.shape == shape && w.v == v {
				dup = true
				if shape != 1 && reflectKindDiffers(xs[j], x) {
					mixed = true
				}
			}
		}
		els = append(els, el{v: v, shape: shape})
		xs = append(xs, x)
	}
	verifKF("C14-KF-UNIQUE-MIXED-KINDS", mixed)
	got := UniqueItems("p", "q", xs) != nil
	verifObserve("got", got)
	verifAssert(got == dup, "uniqueitems-is-value-equality-across-go-types")
	verifReach("end")
}

// reflectKindDiffers: the two values (numbers, or one-element slices of numbers) are carried by different Go types
func reflectKindDiffers(a, b interface{}) bool {
	if as, ok := a.([]interface{}); ok {
		return reflectKindDiffers(as[0], b.([]interface{})[0])
	}
	switch a.(type) {
	case int64:
		_, same := b.(int64)
		return !same
	case float64:
		_, same := b.(float64)
		return !same
	case int32:
		_, same := b.(int32)
		return !same
	case uint8:
		_, same := b.(uint8)
		return !same
	default:
		_, same := b.(float32)
		return !same
	}
}

// HarnessC14Purity: the helpers leave their arguments untouched: typed and generic slices in every
// order, frozen while UniqueItems / Enum / EnumCase / MinItems-style helpers look at them.
func HarnessC14Purity() {
	words := []string{"pear", "apple", "fig"}
	n := verifChoose(4)
	typed := make([]string, 0, n)
	generic := make([]interface{}, 0, n)
	for i := 0; i < n; i++ {
		w := words[verifChoose(3)]
		typed = append(typed, w)
		generic = append(generic, w)
	}
	nums := []int64{3, 1, 2}
	enum := []interface{}{"fig", "apple"}
	verifFreeze(typed, "argument")
	verifFreeze(generic, "argument")
	verifFreeze(nums, "argument")
	verifFreeze(enum, "argument")
	first := UniqueItems("p", "q", typed) == nil
	_ = UniqueItems("p", "q", generic)
	_ = UniqueItems("p", "q", nums)
	_ = Enum("p", "q", "fig", enum)
	_ = EnumCase("p", "q", "FIG", enum, false)
	_ = Enum("p", "q", typed, []interface{}{typed})
	verifUnfreeze()
	verifAssert((UniqueItems("p", "q", typed) == nil) == first, "uniqueitems-pure")
	verifReach("end")
}
