//go:build verif && !verifnative

package validate

import (
	"github.com/go-openapi/analysis"
	"github.com/go-openapi/loads"
	"github.com/go-openapi/spec"
)

// environment constructors (engine: contract stubs of DESIGN 2.4; native: the real loader / analyser)
func verifNewDocument(sw *spec.Swagger) *loads.Document
func verifNewAnalyzer(ops map[string]map[string]*spec.Operation) *analysis.Spec
