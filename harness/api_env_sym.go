//go:build verif && !verifnative

package validate

import (
	"encoding/json"

	"github.com/go-openapi/analysis"
	"github.com/go-openapi/loads"
	"github.com/go-openapi/spec"
)

// environment constructors (engine: contract stubs of DESIGN 2.4; native: the real loader / analyser)
func verifNewDocument(sw *spec.Swagger) *loads.Document
func verifNewAnalyzer(ops map[string]map[string]*spec.Operation) *analysis.Spec

// json.Number carriers: a decimal integer literal holding x, or a literal with a fraction holding f
func verifJSONNumberInt(x int64) json.Number
func verifJSONNumberFloat(f float64) json.Number
