//go:build verif

package validate

// Generators of schemas and instances for the structural harness families, the format-registry
// stub, and outcome helpers shared by C01/C04/C06/C08/C11/C12/C17.

import (
	"reflect"
	"sort"

	"github.com/go-openapi/errors"
	"github.com/go-openapi/spec"
	"github.com/go-openapi/strfmt"
	"github.com/mitchellh/mapstructure"
)

// ---------- format registry stub (contract: strfmt.Registry) ----------
//
// ContainsName / Validates answer with the uninterpreted predicates knownFmt(name), fmtOK(name, s)
// shared with the reference evaluator; Validates panics at its panicAt-th call (C11).

type verifRegistry struct {
	calls   int
	panicAt int
}

func (r *verifRegistry) Add(string, strfmt.Format, strfmt.Validator) bool { return false }
func (r *verifRegistry) DelByName(string) bool                            { return false }
func (r *verifRegistry) GetType(string) (reflect.Type, bool)              { return nil, false }
func (r *verifRegistry) ContainsName(name string) bool {
	return name != "" && verifKnownFmt(name) // contract: no registry knows the empty format name
}
func (r *verifRegistry) Validates(name, data string) bool {
	if r.panicAt > 0 { // the fault-injecting registry counts its calls; the plain one is stateless
		r.calls++
		if r.calls == r.panicAt {
			panic("format checker failure (injected)")
		}
	}
	return verifFmtOK(name, data)
}
func (r *verifRegistry) Parse(string, string) (interface{}, error)         { return nil, nil }
func (r *verifRegistry) MapStructureHookFunc() mapstructure.DecodeHookFunc { return nil }

// ---------- small value generators ----------

// genNum: a finite-domain number; every order relation to the bounds in play (1, 2) occurs.
func genNum() float64 { return verifPickFloat(-1, 0, 1, 1.5, 2, 3) }

var genStrs = []string{"", "a", "ab", "é€"}

func genStr() string { return genStrs[verifChoose(len(genStrs))] }

// genScalar: null, boolean, number or string
func genScalar() interface{} {
	switch verifChoose(4) {
	case 0:
		return nil
	case 1:
		return verifBool()
	case 2:
		return genNum()
	default:
		return genStr()
	}
}

var draft4Types = []string{"null", "boolean", "number", "integer", "string", "array", "object"}

func schemaOfType(t string) spec.Schema {
	s := spec.Schema{}
	s.Type = spec.StringOrArray{t}
	return s
}

func ptrF(f float64) *float64 { return &f }
func ptrI(i int64) *int64     { return &i }

// genLeaf: the leaf family L = { {}, {type:T}, {minimum:m}, {enum:[e]}, {type:number,maximum:m}, {type:string,minLength:1} }
func genLeaf() spec.Schema {
	switch verifChoose(6) {
	case 0:
		return spec.Schema{}
	case 1:
		return schemaOfType(draft4Types[verifChoose(len(draft4Types))])
	case 2:
		s := spec.Schema{}
		s.Minimum = ptrF(genNum())
		return s
	case 3:
		s := spec.Schema{}
		s.Enum = []interface{}{genScalar()}
		return s
	case 4:
		s := schemaOfType("number")
		s.Maximum = ptrF(genNum())
		return s
	default:
		s := schemaOfType("string")
		s.MinLength = ptrI(1)
		return s
	}
}

// genLeafSmall: a 3-element leaf family for positions that are multiplied (tuples, compositions)
func genLeafSmall() spec.Schema {
	switch verifChoose(3) {
	case 0:
		return spec.Schema{}
	case 1:
		s := schemaOfType("number")
		s.Maximum = ptrF(2)
		return s
	default:
		return schemaOfType("string")
	}
}

// genLeafValue: instances that distinguish the members of genLeafSmall
func genLeafValue() interface{} {
	switch verifChoose(3) {
	case 0:
		return genNum()
	case 1:
		return "a"
	default:
		return nil
	}
}

// ---------- outcomes ----------

type verifOutcome struct {
	valid    bool
	errs     []string
	warns    []string
	matches  int
	panicked bool
	panicMsg string
}

func msgsOf(es []error) []string {
	out := make([]string, 0, len(es))
	for _, e := range es {
		out = append(out, e.Error())
	}
	return out
}

func outcomeOfResult(r *Result) verifOutcome {
	if r == nil {
		return verifOutcome{valid: true}
	}
	return verifOutcome{valid: r.IsValid(), errs: msgsOf(r.Errors), warns: msgsOf(r.Warnings), matches: r.MatchCount}
}

func outcomeOfError(err error) verifOutcome {
	if err == nil {
		return verifOutcome{valid: true}
	}
	if ce, ok := err.(*errors.CompositeError); ok {
		return verifOutcome{valid: false, errs: msgsOf(ce.Errors)}
	}
	return verifOutcome{valid: false, errs: []string{err.Error()}}
}

func sameOutcome(a, b verifOutcome) bool {
	return verifAnd(verifIff(a.valid, b.valid), verifSameSet(a.errs, b.errs), verifSameSet(a.warns, b.warns))
}

func sortedStrs(xs []string) []string {
	c := append([]string{}, xs...)
	sort.Strings(c)
	return c
}

// runFresh validates with a freshly built, non-recycling validator object.
func runFresh(s *spec.Schema, data interface{}, reg strfmt.Registry, opts ...Option) verifOutcome {
	return outcomeOfResult(NewSchemaValidator(s, nil, "", reg, opts...).Validate(data))
}

// guarded runs f and reports a panic instead of propagating it.
func guarded(f func() verifOutcome) (out verifOutcome) {
	defer func() {
		if r := recover(); r != nil {
			out = verifOutcome{panicked: true}
			if s, ok := r.(string); ok {
				out.panicMsg = s
			} else if e, ok := r.(error); ok {
				out.panicMsg = e.Error()
			}
		}
	}()
	return f()
}
