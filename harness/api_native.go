//go:build verif && verifnative

package validate

// Native side of the harness API: the verif* functions read the solver's model (the sequence of
// nondeterministic values in call order) so that the same harness runs under the ordinary
// compiler. Used for witness replay (engine prediction == native outcome) and for replaying
// counterexamples before they are reported.

import (
	"encoding/json"
	"fmt"
	"math"
	"os"
	"reflect"
	"regexp"
	"sort"
	"strconv"
	"strings"
	"sync"
	"unicode/utf8"
)

type verifNondetVal struct {
	Kind string `json:"k"`
	Bits uint64 `json:"v"`
	W    int    `json:"w"`
}

type verifCase struct {
	Harness string           `json:"harness"`
	Idx     int              `json:"idx"`
	Tier    int              `json:"tier"`
	Prop    string           `json:"prop"`
	Nondet  []verifNondetVal `json:"nondet"`
}

type verifResult struct {
	Harness  string   `json:"harness"`
	Idx      int      `json:"idx"`
	Observed []string `json:"observed"`
	Failed   []string `json:"failed"`
	Outcome  string   `json:"outcome"`
}

type verifAbort struct{ why string }

var verifState struct {
	queue    []verifNondetVal
	pos      int
	observed []string
	failed   []string
	preds    map[string]bool
	tier     int
	property string
}

func verifPop(kind string) verifNondetVal {
	for verifState.pos < len(verifState.queue) {
		v := verifState.queue[verifState.pos]
		switch v.Kind {
		case "perm", "sched", "stale":
			verifState.pos++
			continue
		}
		if v.Kind != kind {
			panic(verifAbort{fmt.Sprintf("desync: want %s, model has %s at %d", kind, v.Kind, verifState.pos)})
		}
		verifState.pos++
		return v
	}
	// variables created after the model was taken are unconstrained: zero
	return verifNondetVal{Kind: kind}
}

func verifSx(v uint64, w int) int64 {
	sh := uint(64 - w)
	return int64(v<<sh) >> sh
}

func verifBool() bool       { return verifPop("bool").Bits != 0 }
func verifInt8() int8       { return int8(verifPop("int8").Bits) }
func verifInt16() int16     { return int16(verifPop("int16").Bits) }
func verifInt32() int32     { return int32(verifPop("int32").Bits) }
func verifInt64() int64     { return int64(verifPop("int64").Bits) }
func verifInt() int         { return int(verifPop("int").Bits) }
func verifUint8() uint8     { return uint8(verifPop("uint8").Bits) }
func verifUint16() uint16   { return uint16(verifPop("uint16").Bits) }
func verifUint32() uint32   { return uint32(verifPop("uint32").Bits) }
func verifUint64() uint64   { return verifPop("uint64").Bits }
func verifUint() uint       { return uint(verifPop("uint").Bits) }
func verifFloat32() float32 { return math.Float32frombits(uint32(verifPop("float32").Bits)) }
func verifFloat64() float64 { return math.Float64frombits(verifPop("float64").Bits) }
func verifChoose(n int) int {
	k := int(verifPop("choose").Bits)
	if k >= n {
		panic(verifAbort{"choice out of range"})
	}
	return k
}
func verifPickFloat(vals ...float64) float64 { return vals[int(verifPop("pick").Bits)%len(vals)] }
func verifPickInt(vals ...int64) int64       { return vals[int(verifPop("pick").Bits)%len(vals)] }
func verifTier() int                         { return verifState.tier }

func verifAssume(b bool) {
	if !b {
		panic(verifAbort{"assumption false under the model"})
	}
}
func verifKF(id string, region bool) {}
func verifAssert(b bool, label string) {
	if !b {
		verifState.failed = append(verifState.failed, label)
	}
}
func verifReach(label string) {}

func verifShow(v interface{}) string {
	if v == nil {
		return "<nil>"
	}
	rv := reflect.ValueOf(v)
	switch rv.Kind() {
	case reflect.Bool:
		return strconv.FormatBool(rv.Bool())
	case reflect.Int, reflect.Int8, reflect.Int16, reflect.Int32, reflect.Int64:
		return strconv.FormatInt(rv.Int(), 10)
	case reflect.Uint, reflect.Uint8, reflect.Uint16, reflect.Uint32, reflect.Uint64:
		return strconv.FormatInt(int64(rv.Uint()), 10)
	case reflect.Float32:
		return strconv.FormatFloat(rv.Float(), 'g', -1, 32)
	case reflect.Float64:
		return strconv.FormatFloat(rv.Float(), 'g', -1, 64)
	case reflect.String:
		return strconv.Quote(rv.String())
	case reflect.Slice:
		var parts []string
		for i := 0; i < rv.Len(); i++ {
			parts = append(parts, verifShow(rv.Index(i).Interface()))
		}
		return "[" + strings.Join(parts, " ") + "]"
	}
	return fmt.Sprintf("%T", v)
}

func verifObserve(name string, v interface{}) {
	verifState.observed = append(verifState.observed, name+"="+verifShow(v))
}

func verifAnd(bs ...bool) bool {
	for _, b := range bs {
		if !b {
			return false
		}
	}
	return true
}
func verifOr(bs ...bool) bool {
	for _, b := range bs {
		if b {
			return true
		}
	}
	return false
}
func verifNot(b bool) bool        { return !b }
func verifImplies(a, b bool) bool { return !a || b }
func verifIff(a, b bool) bool     { return a == b }
func verifIteF(c bool, a, b float64) float64 {
	if c {
		return a
	}
	return b
}
func verifIteI(c bool, a, b int64) int64 {
	if c {
		return a
	}
	return b
}

// abstract strings: a string with the model's rune count and byte length
func verifAbsStr(name string) string {
	r := int(verifPop("runes").Bits)
	l := int(verifPop("blen").Bits)
	if r > 1<<16 {
		panic(verifAbort{"abstract string too long for native replay"})
	}
	extra := l - r
	var sb strings.Builder
	for i := 0; i < r; i++ {
		switch {
		case extra >= 3:
			sb.WriteString("𝄞")
			extra -= 3
		case extra == 2:
			sb.WriteString("€")
			extra -= 2
		case extra == 1:
			sb.WriteString("é")
			extra--
		default:
			sb.WriteString("a")
		}
	}
	return sb.String()
}

func verifBytesStr(maxLen int) string {
	n := int(verifPop("len").Bits)
	b := make([]byte, n)
	for i := range b {
		b[i] = byte(verifPop("byte").Bits)
	}
	return string(b)
}

func verifPred(key string) bool {
	if v, ok := verifState.preds[key]; ok {
		return v
	}
	v := verifPop("pred").Bits != 0
	verifState.preds[key] = v
	return v
}
func verifFmtOK(format, s string) bool { return verifPred("fmt:" + format + ":" + s) }
func verifKnownFmt(format string) bool { return verifPred("known:" + format) }
func verifMatches(pattern, s string) bool {
	re, err := regexp.Compile(pattern)
	return err == nil && re.MatchString(s)
}

func verifRuneCount(s string) int64      { return int64(utf8.RuneCountInString(s)) }
func verifFoldEq(a, b string) bool       { return strings.EqualFold(a, b) }
func verifChecking(property string) bool { return verifState.property == property }

func verifSubset(a, b []string) bool {
	set := map[string]bool{}
	for _, x := range b {
		set[x] = true
	}
	for _, x := range a {
		if !set[x] {
			return false
		}
	}
	return true
}
func verifSameSet(a, b []string) bool { return verifSubset(a, b) && verifSubset(b, a) }
func verifStrEq(a, b string) bool     { return a == b }
func verifNoDup(a []string) bool {
	c := append([]string{}, a...)
	sort.Strings(c)
	for i := 1; i < len(c); i++ {
		if c[i] == c[i-1] {
			return false
		}
	}
	return true
}

// environment models: the real thing runs natively
func verifHavocPools(on bool)           {}
func verifPoolInv(roots ...interface{}) {}
func verifPooledCount() int             { return 0 }
func verifPermMaps(on bool)             {}

// native twin of the frame monitor: a deep dump of the frozen value is taken and compared again at
// verifUnfreeze; a net change is recorded as the failed label "frame:<label>".
type verifFrozen struct {
	x     interface{}
	label string
	dump  string
}

var verifFrozenList []verifFrozen

func verifFreeze(x interface{}, label string) {
	verifFrozenList = append(verifFrozenList, verifFrozen{x, label, verifDeepDump(x)})
}

func verifUnfreeze() {
	for _, f := range verifFrozenList {
		if verifDeepDump(f.x) != f.dump {
			verifState.failed = append(verifState.failed, "frame:"+f.label)
		}
	}
	verifFrozenList = nil
}

func verifDeepDump(x interface{}) string {
	var b strings.Builder
	seen := map[uintptr]bool{}
	var walk func(v reflect.Value, depth int)
	walk = func(v reflect.Value, depth int) {
		if !v.IsValid() {
			b.WriteString("<nil>")
			return
		}
		if depth > 40 {
			b.WriteString("<deep>")
			return
		}
		switch v.Kind() {
		case reflect.Ptr:
			if v.IsNil() {
				b.WriteString("nil")
				return
			}
			if seen[v.Pointer()] {
				b.WriteString("<seen>")
				return
			}
			seen[v.Pointer()] = true
			b.WriteString("&")
			walk(v.Elem(), depth+1)
		case reflect.Interface:
			if v.IsNil() {
				b.WriteString("nil")
				return
			}
			b.WriteString(v.Elem().Type().String() + ":")
			walk(v.Elem(), depth+1)
		case reflect.Struct:
			b.WriteString("{")
			for i := 0; i < v.NumField(); i++ {
				b.WriteString(v.Type().Field(i).Name + "=")
				walk(v.Field(i), depth+1)
				b.WriteString(";")
			}
			b.WriteString("}")
		case reflect.Slice, reflect.Array:
			if v.Kind() == reflect.Slice && v.IsNil() {
				b.WriteString("nil[]")
				return
			}
			b.WriteString("[")
			for i := 0; i < v.Len(); i++ {
				walk(v.Index(i), depth+1)
				b.WriteString(",")
			}
			b.WriteString("]")
		case reflect.Map:
			if v.IsNil() {
				b.WriteString("nilmap")
				return
			}
			keys := v.MapKeys()
			ks := make([]string, len(keys))
			byKey := map[string]reflect.Value{}
			for i, k := range keys {
				ks[i] = fmt.Sprintf("%v", k)
				byKey[ks[i]] = v.MapIndex(k)
			}
			sort.Strings(ks)
			b.WriteString("map{")
			for _, k := range ks {
				b.WriteString(k + ":")
				walk(byKey[k], depth+1)
				b.WriteString(",")
			}
			b.WriteString("}")
		case reflect.Func, reflect.Chan, reflect.UnsafePointer:
			b.WriteString("<opaque>")
		case reflect.String:
			b.WriteString(strconv.Quote(v.String()))
		case reflect.Bool:
			b.WriteString(strconv.FormatBool(v.Bool()))
		case reflect.Int, reflect.Int8, reflect.Int16, reflect.Int32, reflect.Int64:
			b.WriteString(strconv.FormatInt(v.Int(), 10))
		case reflect.Uint, reflect.Uint8, reflect.Uint16, reflect.Uint32, reflect.Uint64, reflect.Uintptr:
			b.WriteString(strconv.FormatUint(v.Uint(), 10))
		case reflect.Float32, reflect.Float64:
			b.WriteString(strconv.FormatUint(math.Float64bits(v.Float()), 16))
		default:
			b.WriteString("<?>")
		}
	}
	walk(reflect.ValueOf(x), 0)
	return b.String()
}

var verifWG sync.WaitGroup

func verifGo(f func()) {
	verifWG.Add(1)
	go func() {
		defer verifWG.Done()
		f()
	}()
}
func verifJoin() { verifWG.Wait() }

func verifRunCase(c verifCase, fn func()) (res verifResult) {
	res = verifResult{Harness: c.Harness, Idx: c.Idx, Outcome: "end"}
	verifState.queue, verifState.pos = c.Nondet, 0
	verifState.observed, verifState.failed = nil, nil
	verifState.preds = map[string]bool{}
	verifState.tier = c.Tier
	verifState.property = c.Prop
	resetPools()
	defer func() {
		if r := recover(); r != nil {
			if a, ok := r.(verifAbort); ok {
				res.Outcome = "abort:" + a.why
			} else {
				res.Outcome = "panic:" + fmt.Sprint(r)
			}
			resetPools()
		}
		res.Observed, res.Failed = verifState.observed, verifState.failed
	}()
	fn()
	return
}

// verifNativeRunAll runs every case of the file and prints one VERIF-NATIVE line per case.
func verifNativeRunAll(file string, table map[string]func()) {
	b, err := os.ReadFile(file)
	if err != nil {
		fmt.Println("VERIF-NATIVE-ERROR", err)
		return
	}
	var cases []verifCase
	if err := json.Unmarshal(b, &cases); err != nil {
		fmt.Println("VERIF-NATIVE-ERROR", err)
		return
	}
	for _, c := range cases {
		fn := table[c.Harness]
		if fn == nil {
			fmt.Println("VERIF-NATIVE-ERROR no harness", c.Harness)
			continue
		}
		out, _ := json.Marshal(verifRunCase(c, fn))
		fmt.Println("VERIF-NATIVE", string(out))
	}
}
