//go:build verif && verifnative

package validate

import (
	"encoding/json"
	"strconv"
	"strings"

	"github.com/go-openapi/analysis"
	"github.com/go-openapi/loads"
	"github.com/go-openapi/spec"
)

// natively the real loader and analyser are used: a witness replay therefore also cross-checks
// the contract stubs of the engine against the real dependency packages.
func verifNewDocument(sw *spec.Swagger) *loads.Document {
	raw, err := json.Marshal(sw)
	if err != nil {
		panic(verifAbort{"cannot marshal the harness document: " + err.Error()})
	}
	doc, err := loads.Analyzed(json.RawMessage(raw), "")
	if err != nil {
		panic(verifAbort{"the loader rejects the harness document: " + err.Error()})
	}
	verifLastDoc = doc
	return doc
}

// the analyser registered right after a document is that document's (as in the engine): it sees the
// path-item parameters and the shared parameters of the document, not only the operations
var verifLastDoc *loads.Document

func verifNewAnalyzer(ops map[string]map[string]*spec.Operation) *analysis.Spec {
	if doc := verifLastDoc; doc != nil {
		verifLastDoc = nil
		return analysis.New(doc.Spec())
	}
	sw := &spec.Swagger{}
	verifFillPaths(sw, ops)
	return analysis.New(sw)
}

func verifJSONNumberInt(x int64) json.Number { return json.Number(strconv.FormatInt(x, 10)) }
func verifJSONNumberFloat(f float64) json.Number {
	lit := strconv.FormatFloat(f, 'f', -1, 64)
	if !strings.Contains(lit, ".") {
		lit += ".0"
	}
	return json.Number(lit)
}
