//go:build verif

package validate

// C06 — schema validation always terminates with a verdict and never panics.
// The engine's panic monitor runs on every path; here the degenerate family D: every keyword in
// a degenerate form next to every instance kind, under every option combination.

import (
	"encoding/json"

	"github.com/go-openapi/spec"
)

func genDegenerateSchema() spec.Schema {
	s := spec.Schema{}
	switch verifChoose(22) {
	case 0:
		s.Enum = []interface{}{}
	case 1:
		s.Required = []string{}
	case 2:
		s.Items = &spec.SchemaOrArray{Schemas: []spec.Schema{}}
	case 3:
		s.Items = &spec.SchemaOrArray{}
	case 4:
		s.AllOf = []spec.Schema{}
		s.AnyOf = []spec.Schema{}
		s.OneOf = []spec.Schema{}
	case 5:
		s.MinLength = ptrI(verifPickInt(-1, 0, 1<<62))
		s.MaxLength = ptrI(verifPickInt(-1, 0, 1<<62))
	case 6:
		s.MinItems = ptrI(verifPickInt(-1, 0, 1<<62))
		s.MaxItems = ptrI(verifPickInt(-1, 0, 1<<62))
	case 7:
		s.MinProperties = ptrI(verifPickInt(-1, 0, 1<<62))
		s.MaxProperties = ptrI(verifPickInt(-1, 0, 1<<62))
	case 8:
		s.MultipleOf = ptrF(verifPickFloat(0, -1, -0.5, 1e-320, 1e300))
	case 9:
		s.Maximum = ptrF(verifPickFloat(-1e300, 1e300, 1e19, -1e19, 0.5))
		s.Minimum = ptrF(verifPickFloat(-1e300, 1e300, 1e19, -1e19, 0.5))
		s.ExclusiveMaximum = verifBool()
	case 10:
		s.Pattern = "("
	case 11:
		s.PatternProperties = map[string]spec.Schema{"(": {}}
	case 12:
		s.Type = spec.StringOrArray{"foo"}
	case 13:
		s.Type = spec.StringOrArray{}
		s.Format = "no-such-format"
	case 14:
		s.Type = spec.StringOrArray{draft4Types[verifChoose(7)]}
		s.Format = []string{"date", "int32", "int64", "float", "double", "uint64"}[verifChoose(6)]
	case 15:
		l := spec.Schema{}
		l.Type = spec.StringOrArray{"integer"}
		s.AdditionalItems = &spec.SchemaOrBool{Allows: true, Schema: &l}
	case 16:
		l := spec.Schema{}
		s.Items = &spec.SchemaOrArray{Schema: &l}
		s.AdditionalItems = &spec.SchemaOrBool{Allows: false, Schema: &l}
	case 17:
		s.AdditionalProperties = &spec.SchemaOrBool{}
		s.AdditionalItems = &spec.SchemaOrBool{}
	case 18:
		s.Dependencies = spec.Dependencies{"a": spec.SchemaOrStringArray{}}
	case 19:
		s.Type = spec.StringOrArray{"integer", "number", "null"}
		s.Enum = []interface{}{nil, 1.0, "1", int64(1), []interface{}{nil}}
	case 20:
		s.Properties = map[string]spec.Schema{"a": {}}
		s.Required = []string{"a", "a", ""}
		s.UniqueItems = true
	default:
		s.Not = &spec.Schema{}
	}
	return s
}

func genAnyInstance() interface{} {
	switch verifChoose(18) {
	case 17: // heterogeneous array: scalars first, then composite values (next to uniqueItems)
		return []interface{}{1.0, "x", map[string]interface{}{"a": 1.0}, []interface{}{1.0}, 1.0}
	case 14: // objects that look like schemas: items next to a type that is a list holding non-strings
		return map[string]interface{}{"items": []interface{}{}, "type": []interface{}{1.0, "array"}}
	case 15:
		return map[string]interface{}{"items": map[string]interface{}{}, "type": []interface{}{nil, map[string]interface{}{}, "array"}}
	case 16:
		return map[string]interface{}{"a": map[string]interface{}{"items": 1.0, "type": []interface{}{"string", "array"}}, "items": nil, "type": 3.0}
	case 0:
		return nil
	case 1:
		return verifBool()
	case 2:
		return verifPickFloat(0, -1, 0.5, 1e19, -1e19, 1e300, 5e-324)
	case 3:
		return genStr()
	case 4:
		return []interface{}{}
	case 5:
		return map[string]interface{}{}
	case 6:
		return []interface{}{nil, 1.0, "a", []interface{}{}, map[string]interface{}{"a": nil}}
	case 7:
		return map[string]interface{}{"a": nil, "": 1.0, "(": []interface{}{1.0, 1.0}}
	case 8:
		return json.Number("12")
	case 9:
		return json.Number("1.5")
	case 10:
		return json.Number("garbage")
	case 11:
		return json.Number("99999999999999999999")
	case 12:
		return int64(7)
	default:
		return []interface{}{1.0, 1.0}
	}
}

func HarnessC06Degenerate() {
	s := genDegenerateSchema()
	d := genAnyInstance()
	var opts []Option
	if verifBool() {
		opts = append(opts, SwaggerSchema(true))
	}
	if verifBool() {
		opts = append(opts, WithSkipSchemataResult(true))
	}
	recycle := verifBool()
	if recycle {
		opts = append(opts, WithRecycleValidators(true))
	}
	reg := &verifRegistry{}
	verifKF("C06-KF-ADDITIONALITEMS", s.AdditionalItems != nil && s.AdditionalItems.Schema != nil)
	res := NewSchemaValidator(&s, nil, "", reg, opts...).Validate(d)
	verifAssert(res != nil, "a-result-is-returned")
	verifAssert(res.IsValid() == (len(res.Errors) == 0), "verdict-consistent-with-errors")
	err := AgainstSchema(&s, d, reg, opts...)
	verifAssert((err == nil) == res.IsValid() || recycle, "oneshot-returns-a-verdict")
	verifReach("end")
}

// HarnessC06Nested: degenerate sub-schemas one level down (properties / items / allOf / not)
func HarnessC06Nested() {
	inner := genDegenerateSchema()
	s := spec.Schema{}
	switch verifChoose(5) {
	case 0:
		s.Properties = map[string]spec.Schema{"a": inner}
	case 1:
		s.Items = &spec.SchemaOrArray{Schema: &inner}
	case 2:
		s.AllOf = []spec.Schema{inner, {}}
	case 3:
		s.Not = &inner
	default:
		s.AdditionalProperties = &spec.SchemaOrBool{Allows: true, Schema: &inner}
	}
	var d interface{}
	switch verifChoose(4) {
	case 0:
		d = map[string]interface{}{"a": genAnyInstance()}
	case 1:
		d = []interface{}{genAnyInstance()}
	case 2:
		d = genAnyInstance()
	default:
		d = map[string]interface{}{"a": map[string]interface{}{"a": []interface{}{nil}}}
	}
	reg := &verifRegistry{}
	verifKF("C06-KF-ADDITIONALITEMS", inner.AdditionalItems != nil && inner.AdditionalItems.Schema != nil)
	res := NewSchemaValidator(&s, nil, "", reg).Validate(d)
	verifAssert(res != nil, "a-result-is-returned")
	_ = AgainstSchema(&s, d, reg)
	verifReach("end")
}

// HarnessC06KeywordNames: member names and root paths that coincide with schema keywords
// (the object validator inspects the last segments of its path).
func HarnessC06KeywordNames() {
	words := []string{"default", "properties", "example", "examples", "items", "type", "$ref", ""}
	name := words[verifChoose(len(words))]
	root := []string{"", "default", "properties", "example", "a.default", "properties.properties"}[verifChoose(6)]
	inner := spec.Schema{}
	switch verifChoose(3) {
	case 0:
		inner.Type = spec.StringOrArray{"object"}
	case 1:
		inner.Type = spec.StringOrArray{"array"}
	}
	s := spec.Schema{}
	s.Properties = map[string]spec.Schema{name: inner}
	var v interface{}
	switch verifChoose(4) {
	case 0:
		v = map[string]interface{}{"a": 1.0, "items": []interface{}{}, "type": "array"}
	case 1:
		v = map[string]interface{}{}
	case 2:
		v = []interface{}{map[string]interface{}{"type": "array"}}
	default:
		if verifBool() {
			v = map[string]interface{}{"type": "array"}
		} else {
			v = "x"
		}
	}
	d := map[string]interface{}{name: v}
	var opts []Option
	if verifBool() {
		opts = append(opts, SwaggerSchema(true))
	}
	if verifBool() {
		opts = append(opts, WithRecycleValidators(true))
	}
	res := NewSchemaValidator(&s, nil, root, &verifRegistry{}, opts...).Validate(d)
	verifAssert(res != nil, "a-result-is-returned")
	if verifChecking("C03") {
		// the swagger pre-check "an array declares items" does not depend on what the member is called
		withCheck := NewSchemaValidator(&s, nil, root, &verifRegistry{}, SwaggerSchema(true)).Validate(d)
		if m, isObj := v.(map[string]interface{}); isObj && m["type"] == "array" && inner.Type.Contains("object") {
			if _, hasItems := m["items"]; !hasItems {
				verifAssert(!withCheck.IsValid(), "array-without-items-is-reported-whatever-the-member-name")
			}
		}
	}
	verifReach("end")
}
