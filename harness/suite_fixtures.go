//go:build verif

package validate

// Differential validation of the executor and of the reference evaluator against the repository's
// own labelled test inputs (the JSON-Schema-Test-Suite fixtures under /repo/fixtures, turned into Go
// literals by tools_gen_suite.py): each case runs concretely through the engine; the implementation's
// verdict and the reference evaluator's verdict must both equal the label, and the witness replay
// compares the engine's run with the native one.

import "github.com/go-openapi/spec"

func suiteSchemaOrBool(v interface{}) *spec.SchemaOrBool {
	switch x := v.(type) {
	case bool:
		return &spec.SchemaOrBool{Allows: x}
	case map[string]interface{}:
		s := suiteSchema(x)
		return &spec.SchemaOrBool{Allows: true, Schema: s}
	}
	return nil
}

func suiteSchemas(v interface{}) []spec.Schema {
	var out []spec.Schema
	for _, e := range v.([]interface{}) {
		out = append(out, *suiteSchema(e.(map[string]interface{})))
	}
	return out
}

func suiteSchemaMap(v interface{}) map[string]spec.Schema {
	out := map[string]spec.Schema{}
	for k, e := range v.(map[string]interface{}) {
		out[k] = *suiteSchema(e.(map[string]interface{}))
	}
	return out
}

func suiteStrings(v interface{}) []string {
	var out []string
	for _, e := range v.([]interface{}) {
		out = append(out, e.(string))
	}
	return out
}

// suiteSchema builds a spec.Schema from its decoded JSON (draft-4 keywords, no references).
func suiteSchema(m map[string]interface{}) *spec.Schema {
	s := &spec.Schema{}
	for k, v := range m {
		switch k {
		case "type":
			if t, ok := v.(string); ok {
				s.Type = spec.StringOrArray{t}
			} else {
				s.Type = spec.StringOrArray(suiteStrings(v))
			}
		case "enum":
			s.Enum = v.([]interface{})
		case "maximum":
			f := v.(float64)
			s.Maximum = &f
		case "minimum":
			f := v.(float64)
			s.Minimum = &f
		case "exclusiveMaximum":
			s.ExclusiveMaximum = v.(bool)
		case "exclusiveMinimum":
			s.ExclusiveMinimum = v.(bool)
		case "multipleOf":
			f := v.(float64)
			s.MultipleOf = &f
		case "maxLength":
			s.MaxLength = ptrI(int64(v.(float64)))
		case "minLength":
			s.MinLength = ptrI(int64(v.(float64)))
		case "pattern":
			s.Pattern = v.(string)
		case "maxItems":
			s.MaxItems = ptrI(int64(v.(float64)))
		case "minItems":
			s.MinItems = ptrI(int64(v.(float64)))
		case "uniqueItems":
			s.UniqueItems = v.(bool)
		case "maxProperties":
			s.MaxProperties = ptrI(int64(v.(float64)))
		case "minProperties":
			s.MinProperties = ptrI(int64(v.(float64)))
		case "required":
			s.Required = suiteStrings(v)
		case "items":
			if arr, ok := v.([]interface{}); ok {
				s.Items = &spec.SchemaOrArray{Schemas: suiteSchemas(arr)}
			} else {
				s.Items = &spec.SchemaOrArray{Schema: suiteSchema(v.(map[string]interface{}))}
			}
		case "additionalItems":
			s.AdditionalItems = suiteSchemaOrBool(v)
		case "properties":
			s.Properties = suiteSchemaMap(v)
		case "patternProperties":
			s.PatternProperties = suiteSchemaMap(v)
		case "additionalProperties":
			s.AdditionalProperties = suiteSchemaOrBool(v)
		case "dependencies":
			s.Dependencies = spec.Dependencies{}
			for dk, dv := range v.(map[string]interface{}) {
				if arr, ok := dv.([]interface{}); ok {
					s.Dependencies[dk] = spec.SchemaOrStringArray{Property: suiteStrings(arr)}
				} else {
					s.Dependencies[dk] = spec.SchemaOrStringArray{Schema: suiteSchema(dv.(map[string]interface{}))}
				}
			}
		case "allOf":
			s.AllOf = suiteSchemas(v)
		case "anyOf":
			s.AnyOf = suiteSchemas(v)
		case "oneOf":
			s.OneOf = suiteSchemas(v)
		case "not":
			s.Not = suiteSchema(v.(map[string]interface{}))
		case "default":
			s.Default = v
		}
	}
	return s
}

// HarnessSuiteFixtures: one labelled case per path.
func HarnessSuiteFixtures() {
	c := suiteCaseAt(verifChoose(suiteCaseCount))
	s := suiteSchema(c.schema)
	// the two documented deviations of the library from the labels' semantics are excluded here
	// exactly as in the families (known findings of C01)
	verifKF("C01-KF-NULL-APPLICATORS", c.data == nil && schemaHasApplicators(s))
	reg := &verifRegistry{}
	impl := NewSchemaValidator(s, nil, "", reg).Validate(c.data).IsValid()
	ref := refValid(s, c.data)
	one := AgainstSchema(s, c.data, reg) == nil
	verifObserve("case", c.file+": "+c.desc)
	verifObserve("impl", impl)
	verifAssert(ref == c.valid, "reference-evaluator-agrees-with-the-suite-label")
	verifAssert(impl == c.valid, "implementation-agrees-with-the-suite-label")
	verifAssert(one == impl, "oneshot-agrees-with-validator-object")
	verifReach("end")
}
