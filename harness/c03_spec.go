//go:build verif

package validate

// C03 / C07 / C09 / C10 — validate's own rule functions on harness-built, reference-free
// *spec.Swagger objects; the analyser, the loader and the expander are contract stubs (see
// DESIGN 2.4): verifNewDocument / verifNewAnalyzer build the environment from the same objects.

import (
	"strings"

	"github.com/go-openapi/spec"
)

func newSpecHarnessValidator(sw *spec.Swagger, ops map[string]map[string]*spec.Operation, cont, strict bool) *SpecValidator {
	verifFillPaths(sw, ops)
	paramSchema := spec.Schema{}
	root := &spec.Schema{}
	root.Definitions = spec.Definitions{"parameter": paramSchema} // the re-validation of parameters against the Swagger schema is outside the claim
	// built by the library's own constructor (its schema options are the real ones), then pointed at
	// the harness's document and analyser
	s := NewSpecValidator(root, &verifRegistry{})
	s.spec = verifNewDocument(sw)
	s.analyzer = verifNewAnalyzer(ops)
	s.Options.ContinueOnErrors = cont
	s.Options.StrictPathParamUniqueness = strict
	return s
}

// verifFillPaths makes the document's paths section consistent with the operations index handed
// to the analyser stub (natively the real analyser derives the index from the paths section).
func verifFillPaths(sw *spec.Swagger, ops map[string]map[string]*spec.Operation) {
	sw.Swagger = "2.0"
	if len(ops) == 0 {
		return
	}
	if sw.Paths == nil {
		sw.Paths = &spec.Paths{}
	}
	if sw.Paths.Paths == nil {
		sw.Paths.Paths = map[string]spec.PathItem{}
	}
	for method, byPath := range ops {
		for path, op := range byPath {
			pi := sw.Paths.Paths[path]
			switch method {
			case "GET":
				if pi.Get == op {
					continue // already consistent: the document is not written to again
				}
				pi.Get = op
			case "POST":
				if pi.Post == op {
					continue
				}
				pi.Post = op
			}
			sw.Paths.Paths[path] = pi
		}
	}
}

// ---------- R4: required properties must be defined ----------

func genDefinition() (spec.Schema, bool) { // schema, every required name is defined
	s := spec.Schema{}
	s.Type = spec.StringOrArray{"object"}
	ok := true
	switch verifChoose(6) {
	case 0: // required and defined
		s.Properties = map[string]spec.Schema{"a": {}}
		s.Required = []string{"a"}
	case 1: // required, not defined
		s.Properties = map[string]spec.Schema{"a": {}}
		s.Required = []string{"a", "b"}
		ok = false
	case 2: // matched by a pattern property
		s.PatternProperties = map[string]spec.Schema{"^b": {}}
		s.Required = []string{"b"}
	case 3: // admitted by additionalProperties: true
		s.AdditionalProperties = &spec.SchemaOrBool{Allows: true}
		s.Required = []string{"c"}
	case 4: // additionalProperties schema that does not define it either
		in := spec.Schema{}
		in.Properties = map[string]spec.Schema{"z": {}}
		s.AdditionalProperties = &spec.SchemaOrBool{Allows: true, Schema: &in}
		s.Required = []string{"c"}
		ok = false
	default: // no required list
		s.Properties = map[string]spec.Schema{"a": {}}
	}
	return s, ok
}

// HarnessC03RequiredDefs: rule + determinism under map order + monotonicity in continue-on-errors.
func HarnessC03RequiredDefs() {
	sw := &spec.Swagger{}
	d1, ok1 := genDefinition()
	d2, ok2 := genDefinition()
	sw.Definitions = spec.Definitions{"A": d1, "B": d2}
	cont := verifBool()
	run := func(c bool) verifOutcome {
		s := newSpecHarnessValidator(sw, nil, c, true)
		return outcomeOfResult(s.validateRequiredDefinitions())
	}
	base := run(cont)
	verifAssert(base.valid == (ok1 && ok2), "required-must-be-defined")
	if !verifChecking("C10") {
		verifReach("end")
		return
	}
	// C10: the same document again, maps iterated in another (solver-chosen) order
	verifPermMaps(true)
	again := run(cont)
	verifPermMaps(false)
	verifAssert(verifIff(again.valid, base.valid), "verdict-independent-of-map-order")
	verifAssert(verifSameSet(again.errs, base.errs), "error-set-independent-of-map-order")
	// C10: every error reported when stopping early is also reported with continue-on-errors
	full := run(true)
	verifAssert(verifSubset(base.errs, full.errs), "early-stop-errors-subset-of-continue-on-errors")
	verifAssert(verifIff(full.valid, base.valid), "verdict-independent-of-continue-on-errors")
	verifReach("end")
}

// ---------- R5: operation ids are unique ----------

func HarnessC03OperationIDs() {
	ids := []string{"", "a", "b"}
	i, j, k, l := verifChoose(3), verifChoose(3), verifChoose(3), verifChoose(3)
	mk := func(id string) *spec.Operation {
		op := &spec.Operation{}
		op.ID = id
		return op
	}
	ops := map[string]map[string]*spec.Operation{
		"GET":  {"/p": mk(ids[i]), "/q": mk(ids[j])},
		"POST": {"/p": mk(ids[k]), "/q": mk(ids[l])},
	}
	cont := verifBool()
	s := newSpecHarnessValidator(&spec.Swagger{}, ops, cont, true)
	count := func(x int) int {
		n := 0
		for _, y := range []int{i, j, k, l} {
			if y == x {
				n++
			}
		}
		return n
	}
	dup := count(1) > 1 || count(2) > 1
	verifPermMaps(true)
	got := outcomeOfResult(s.validateDuplicateOperationIDs())
	verifAssert(got.valid == !dup, "operation-ids-unique")
	if verifChecking("C10") {
		again := outcomeOfResult(s.validateDuplicateOperationIDs())
		verifAssert(verifSameSet(again.errs, got.errs), "error-set-independent-of-map-order")
	}
	verifPermMaps(false)
	verifReach("end")
}

// ---------- R1/R2/R3/R9: parameters of one method ----------

var c03Paths = []string{"/p", "/p/{x}", "/p/{y}", "/p/{x}/{y}", "/q/{x}-{x}", "/q"}

func genParam() spec.Parameter {
	p := spec.Parameter{}
	p.Name = []string{"x", "y", "b"}[verifChoose(3)]
	switch verifChoose(4) {
	case 0:
		p.In = "path"
		p.Type = "string"
		p.Required = verifBool()
	case 1:
		p.In = "query"
		p.Type = "string"
		p.Pattern = []string{"", "^a", "("}[verifChoose(3)] // "valid patterns" rule
	case 2:
		p.In = "body"
		p.Schema = &spec.Schema{}
	default:
		p.In = "formData"
		p.Type = "string"
	}
	return p
}

// refParamRules states the documented rules for one operation.
func refParamRules(path string, params []spec.Parameter) bool {
	ok := true
	seen := map[string]bool{}
	bodies, hasForm := 0, false
	var pathNames []string
	for _, p := range params {
		key := p.In + "#" + p.Name
		if seen[key] {
			ok = false // unique name + location
		}
		if p.Pattern == "(" {
			ok = false // patterns must be valid regular expressions
		}
		seen[key] = true
		switch p.In {
		case "body":
			bodies++
		case "formData":
			hasForm = true
		case "path":
			if !p.Required {
				ok = false
			}
			pathNames = append(pathNames, p.Name)
		}
	}
	if bodies > 1 || (bodies > 0 && hasForm) {
		ok = false
	}
	// placeholders of the template
	var holders []string
	rest := path
	for {
		i := strings.Index(rest, "{")
		if i < 0 {
			break
		}
		j := strings.Index(rest[i:], "}")
		holders = append(holders, rest[i+1:i+j])
		rest = rest[i+j+1:]
	}
	for i, h := range holders {
		for j := 0; j < i; j++ {
			if holders[j] == h {
				ok = false // placeholder used twice
			}
		}
		found := false
		for _, n := range pathNames {
			if n == h {
				found = true
			}
		}
		if !found {
			ok = false // placeholder without a path parameter
		}
	}
	for _, n := range pathNames {
		found := false
		for _, h := range holders {
			if n == h {
				found = true
			}
		}
		if !found {
			ok = false // path parameter without a placeholder
		}
	}
	return ok
}

func HarnessC03Parameters() {
	path := c03Paths[verifChoose(len(c03Paths))]
	n := verifChoose(3 + verifTier())
	op := &spec.Operation{}
	op.ID = "op"
	for i := 0; i < n; i++ {
		op.Parameters = append(op.Parameters, genParam())
	}
	want := refParamRules(path, op.Parameters)
	ops := map[string]map[string]*spec.Operation{"GET": {path: op}}
	cont := verifBool()
	s := newSpecHarnessValidator(&spec.Swagger{}, ops, cont, true)
	got := outcomeOfResult(s.validateParameters())
	verifObserve("valid", got.valid)
	verifAssert(got.valid == want, "parameter-rules")
	verifReach("end")
}

// HarnessC03PathOverlap: two paths of one method; strict path-parameter uniqueness on/off.
func HarnessC03PathOverlap() {
	i, j := verifChoose(len(c03Paths)), verifChoose(len(c03Paths))
	verifAssume(i < j)
	strict := verifBool()
	mk := func(path string) *spec.Operation {
		op := &spec.Operation{}
		op.ID = "op" + path
		// declare exactly the parameters the template needs, so that only the overlap rule can fire
		for _, h := range pathHelp.extractPathParams(path) {
			p := spec.Parameter{}
			p.Name, p.In, p.Type, p.Required = strings.Trim(h, "{}"), "path", "string", true
			dup := false
			for _, q := range op.Parameters {
				if q.Name == p.Name {
					dup = true
				}
			}
			if !dup {
				op.Parameters = append(op.Parameters, p)
			}
		}
		return op
	}
	ops := map[string]map[string]*spec.Operation{"GET": {c03Paths[i]: mk(c03Paths[i]), c03Paths[j]: mk(c03Paths[j])}}
	s := newSpecHarnessValidator(&spec.Swagger{}, ops, true, strict)
	verifPermMaps(true)
	got := outcomeOfResult(s.validateParameters())
	verifPermMaps(false)
	strip := func(p string) string { return pathHelp.stripParametersInPath(p) }
	overlap := strict && strip(c03Paths[i]) == strip(c03Paths[j])
	selfDup := i == 4 || j == 4 // "/q/{x}-{x}" uses a placeholder twice
	verifAssert(got.valid == !(overlap || selfDup), "path-overlap-rule")
	verifReach("end")
}

// ---------- R8: empty placeholder / missing paths ----------

func HarnessC03NonEmptyPathParams() {
	sw := &spec.Swagger{}
	k := verifChoose(4)
	switch k {
	case 1:
		sw.Paths = &spec.Paths{}
	case 2:
		sw.Paths = &spec.Paths{Paths: map[string]spec.PathItem{"/p/{x}": {}}}
	case 3:
		sw.Paths = &spec.Paths{Paths: map[string]spec.PathItem{"/p/{}": {}, "/q": {}}}
	}
	s := newSpecHarnessValidator(sw, nil, verifBool(), true)
	got := outcomeOfResult(s.validateNonEmptyPathParamNames())
	verifAssert(got.valid == (k == 1 || k == 2), "paths-present-and-placeholders-named")
	verifAssert(k != 1 || len(got.warns) > 0, "empty-paths-is-a-warning")
	verifReach("end")
}

// ---------- R7: arrays declare items ----------

func HarnessC03Items() {
	op := &spec.Operation{}
	op.ID = "op"
	want := true
	p := spec.Parameter{}
	p.Name = "q"
	switch verifChoose(5) {
	case 0:
		p.In, p.Type = "query", "array"
		want = false
	case 1:
		p.In, p.Type = "query", "array"
		p.Items = &spec.Items{}
		p.Items.Type = "string"
	case 2:
		p.In, p.Type = "query", "array"
		p.Items = &spec.Items{}
		p.Items.Type = "array" // nested array without items
		want = false
	case 3:
		p.In = "body"
		sch := schemaOfType("array")
		p.Schema = &sch
		want = false
	default:
		p.In = "body"
		sch := schemaOfType("array")
		in := schemaOfType("string")
		sch.Items = &spec.SchemaOrArray{Schema: &in}
		p.Schema = &sch
	}
	op.Parameters = []spec.Parameter{p}
	if verifBool() {
		h := spec.Header{}
		h.Type = "array"
		withItems := verifBool()
		if withItems {
			h.Items = &spec.Items{}
			h.Items.Type = "string"
		} else {
			want = false
		}
		resp := spec.Response{}
		resp.Headers = map[string]spec.Header{"X": h}
		op.Responses = &spec.Responses{}
		op.Responses.StatusCodeResponses = map[int]spec.Response{200: resp}
	}
	ops := map[string]map[string]*spec.Operation{"GET": {"/p": op}}
	s := newSpecHarnessValidator(&spec.Swagger{}, ops, true, true)
	got := outcomeOfResult(s.validateItems())
	verifAssert(got.valid == want, "arrays-declare-items")
	verifReach("end")
}

// ---------- C07 / C09: defaults and examples traversal ----------

var c07Names = []string{"body", "a.a", "x.y", "a.b.a", "", "a.", ".a", "default", "items.default"}

func numSchemaMax(max float64, def interface{}) spec.Schema {
	s := schemaOfType("number")
	s.Maximum = ptrF(max)
	s.Default = def
	s.Example = def
	return s
}

// genDefaultTree: a schema tree (depth <= 2) whose nodes are {type:number, maximum:2, default:d};
// returns the tree and whether some node's default is rejected by its schema.
func genDefaultTree(propName string) (spec.Schema, bool) {
	bad := false
	pick := func() interface{} {
		if verifBool() {
			bad = true
			return 3.0
		}
		return 1.0
	}
	root := spec.Schema{}
	kind := verifChoose(6 + 2*verifTier())
	switch kind {
	case 6: // thorough: tuple items, each position with its own default
		root.Items = &spec.SchemaOrArray{Schemas: []spec.Schema{numSchemaMax(2, pick()), numSchemaMax(2, pick())}}
	case 7: // thorough: three levels: property -> items -> additionalProperties
		leaf := numSchemaMax(2, pick())
		mid := spec.Schema{}
		mid.AdditionalProperties = &spec.SchemaOrBool{Allows: true, Schema: &leaf}
		arr := spec.Schema{}
		arr.Items = &spec.SchemaOrArray{Schema: &mid}
		root.Properties = map[string]spec.Schema{propName: arr, "o": numSchemaMax(2, pick())}
	case 0:
		root = numSchemaMax(2, pick())
	case 1:
		root.Properties = map[string]spec.Schema{propName: numSchemaMax(2, pick())}
	case 2:
		leaf := numSchemaMax(2, pick())
		root.Items = &spec.SchemaOrArray{Schema: &leaf}
	case 3:
		leaf := numSchemaMax(2, pick())
		root.AdditionalProperties = &spec.SchemaOrBool{Allows: true, Schema: &leaf}
	case 4:
		root.AllOf = []spec.Schema{numSchemaMax(2, pick())}
	default:
		inner := spec.Schema{}
		inner.Properties = map[string]spec.Schema{propName: numSchemaMax(2, pick())}
		root.Properties = map[string]spec.Schema{"o": inner}
	}
	if kind > 0 && verifBool() {
		// the container also declares the type its keywords apply to (for allOf: the scalar type of its member)
		root.Type = spec.StringOrArray{[]string{"", "object", "array", "object", "number", "object", "array", "object"}[kind]}
	}
	return root, bad
}

// HarnessC09Definitions: a default (example) that its schema rejects is an error (warning); none otherwise.
func HarnessC09Definitions() {
	defName := []string{"D", "data", "a"}[verifChoose(3)]
	propName := []string{"p", "a", "data"}[verifChoose(3)]
	tree, bad := genDefaultTree(propName)
	sw := &spec.Swagger{}
	sw.Definitions = spec.Definitions{defName: tree}
	s := newSpecHarnessValidator(sw, map[string]map[string]*spec.Operation{}, true, true)
	verifKF("C09-KF-VISITED-SUFFIX", strings.HasSuffix("definitions."+defName, "."+propName)) // whole segments: the definition is called like the member
	d := &defaultValidator{SpecValidator: s, schemaOptions: s.schemaOptions}
	gotD := outcomeOfResult(d.Validate())
	ex := &exampleValidator{SpecValidator: s, schemaOptions: s.schemaOptions}
	gotE := outcomeOfResult(ex.Validate())
	if verifChecking("C09") {
		verifAssert(gotD.valid == !bad, "rejected-default-is-an-error-and-only-then")
		verifAssert(gotE.valid, "examples-never-make-errors")
		verifAssert((len(gotE.warns) > 0) == bad, "rejected-example-is-a-warning-and-only-then")
	}
	verifReach("end")
}

// HarnessC07ParamNames: the traversals return normally whatever the parameter is called.
func HarnessC07ParamNames() {
	name := c07Names[verifChoose(len(c07Names))]
	p := spec.Parameter{}
	p.Name = name
	bad := false
	switch verifChoose(3) {
	case 0:
		p.In = "body"
		tree, b := genDefaultTree("p")
		p.Schema, bad = &tree, b
	case 1:
		p.In, p.Type = "query", "number"
		p.Maximum = ptrF(2)
		if verifBool() {
			p.Default, bad = 3.0, true
		} else {
			p.Default = 1.0
		}
	default:
		p.In, p.Type = "query", "array"
		p.Items = &spec.Items{}
		p.Items.Type = "number"
		p.Items.Maximum = ptrF(2)
		switch verifChoose(3) {
		case 0:
			p.Items.Default, bad = 3.0, true
		case 1:
			p.Items.Default = 1.0
		default:
			p.Default = []interface{}{nil} // a default array holding null
			p.Example = []interface{}{nil}
		}
	}
	op := &spec.Operation{}
	op.ID = "op"
	op.Parameters = []spec.Parameter{p}
	if verifBool() {
		op.Responses = &spec.Responses{}
	}
	ops := map[string]map[string]*spec.Operation{"POST": {"/p": op}}
	cont := verifBool()
	s := newSpecHarnessValidator(&spec.Swagger{}, ops, cont, true)
	verifKF("C09-KF-VISITED-SUFFIX", kfVisitedName(name))
	d := &defaultValidator{SpecValidator: s, schemaOptions: s.schemaOptions}
	got := outcomeOfResult(d.Validate())
	verifObserve("name", name)
	verifObserve("valid", got.valid)
	if op.Responses != nil && verifChecking("C09") {
		verifAssert(got.valid == !bad, "rejected-parameter-default-is-an-error-and-only-then")
	}
	ex := &exampleValidator{SpecValidator: s, schemaOptions: s.schemaOptions}
	_ = ex.Validate()
	verifReach("end")
}

// kfVisitedName: the name itself trips the suffix-overlap heuristic (some dot-separated suffix of it
// equals the end of what precedes that dot)
func kfVisitedName(name string) bool {
	none := map[string]struct{}{}
	for _, suffix := range []string{"", ".items.default", ".additionalProperties", ".p", ".o", ".o.p", ".allOf[0]"} {
		if isVisited(name+suffix, none) { // every path the traversal builds below this name
			return true
		}
	}
	return false
}

// HarnessC09VisitedKernel: the visited-path heuristic on symbolic names (bytes are solver variables):
// a path that was never visited, built from dot-free segments, must not be reported visited.
func HarnessC09VisitedKernel() {
	def := verifBytesStr(3)
	name := verifBytesStr(3)
	verifAssume(len(def) >= 1 && len(name) >= 1)
	verifAssume(!strings.Contains(def, ".") && !strings.Contains(name, "."))
	verifKF("C09-KF-VISITED-SUFFIX", strings.HasSuffix("definitions."+def, "."+name))
	path := "definitions." + def + "." + name
	visited := map[string]struct{}{}
	visited["definitions."+def] = struct{}{}
	got := isVisited(path, visited)
	verifAssert(!got, "fresh-property-path-not-visited")
	verifReach("end")
}

// HarnessC10WholeValidate: the real (*SpecValidator).Validate (rule sequence, early-stop policy and
// final bookkeeping) with every dependency call stubbed, on a small reference-free document with
// solver-chosen rule violations: a bad default (error), a bad example (warning), an undefined
// required property (error), a read-only required property (warning).
// genSmallSpec: a one-definition, one-operation reference-free document with four independent,
// solver-chosen rule violations.
type smallSpecFlags struct{ badDefault, badExample, undefinedReq, roReq bool }

func genSmallSpec() (*spec.Swagger, map[string]map[string]*spec.Operation, smallSpecFlags) {
	sw := &spec.Swagger{}
	def := spec.Schema{}
	def.Type = spec.StringOrArray{"object"}
	prop := schemaOfType("number")
	prop.Maximum = ptrF(2)
	f := smallSpecFlags{verifBool(), verifBool(), verifBool(), verifBool()}
	if f.badDefault {
		prop.Default = 3.0
	}
	if f.badExample {
		prop.Example = 3.0
	}
	if f.roReq {
		prop.ReadOnly = true
		def.Required = append(def.Required, "p")
	}
	if f.undefinedReq {
		def.Required = append(def.Required, "missing")
	}
	def.Properties = map[string]spec.Schema{"p": prop}
	sw.Definitions = spec.Definitions{"D": def}
	sw.Paths = &spec.Paths{Paths: map[string]spec.PathItem{"/p": {}}}
	op := &spec.Operation{}
	op.ID = "op"
	op.Responses = &spec.Responses{}
	ops := map[string]map[string]*spec.Operation{"GET": {"/p": op}}
	return sw, ops, f
}

// wholeParamSchema stands for #/definitions/parameter of the Swagger schema in the whole-validate
// harnesses: a parameter object must carry a name and a location.
func wholeParamSchema() spec.Schema {
	ps := spec.Schema{}
	ps.Type = spec.StringOrArray{"object"}
	ps.Required = []string{"name", "in"}
	return ps
}

func runWholeValidate(sw *spec.Swagger, ops map[string]map[string]*spec.Operation, cont bool) (verifOutcome, verifOutcome) {
	s := newSpecHarnessValidator(sw, ops, cont, true)
	s.schema = &spec.Schema{}
	s.schema.Definitions = spec.Definitions{"parameter": wholeParamSchema()}
	errs, warns := s.Validate(s.spec)
	return outcomeOfResult(errs), outcomeOfResult(warns)
}

func HarnessC10WholeValidate() {
	sw, ops, f := genSmallSpec()
	badDefault, badExample, undefinedReq, roReq := f.badDefault, f.badExample, f.undefinedReq, f.roReq
	// a fifth independent violation: a parameter object that is not a well-formed parameter (no name),
	// which only the per-operation re-validation against the parameter schema reports
	badParam := false
	switch verifChoose(3) {
	case 1:
		ops["GET"]["/p"].Parameters = []spec.Parameter{*spec.QueryParam("q").Typed("string", "")}
	case 2:
		nameless := spec.QueryParam("").Typed("string", "")
		ops["GET"]["/p"].Parameters = []spec.Parameter{*nameless}
		badParam = true
	}
	run := func(cont bool) (verifOutcome, verifOutcome) { return runWholeValidate(sw, ops, cont) }
	cont := verifBool()
	// repeatability = the outcome is a function of the document + the document is left as it was:
	// the caller's document and operations are frozen during the first validation
	verifFillPaths(sw, ops)
	verifFreeze(sw, "specification")
	verifFreeze(ops, "operations")
	errs, warns := run(cont)
	verifUnfreeze()
	verifObserve("valid", errs.valid)
	verifAssert(errs.valid == !(badDefault || undefinedReq || badParam), "errors-exactly-for-broken-rules")
	verifAssert(verifImplies(!(badDefault || undefinedReq || badParam), errs.valid), "warnings-alone-never-invalidate")
	all := append(append([]string{}, warns.errs...), warns.warns...)
	verifAssert(verifSameSet(all, errs.warns), "separate-warnings-are-exactly-the-attached-warnings")
	verifAssert(verifImplies(badExample && (cont || errs.valid), len(errs.warns) > 0), "rejected-example-is-a-warning")
	verifAssert(verifImplies(roReq, len(errs.warns) > 0), "readonly-required-is-a-warning")
	// repetition and monotonicity
	errs2, _ := run(cont)
	verifAssert(sameOutcome(errs, errs2), "same-document-again-same-outcome")
	full, _ := run(true)
	verifAssert(verifSubset(errs.errs, full.errs), "early-stop-errors-subset-of-continue-on-errors")
	verifAssert(verifIff(full.valid, errs.valid), "verdict-independent-of-continue-on-errors")
	verifReach("end")
}

// HarnessC09SimpleItems: defaults and examples on the items of simple parameters and response
// headers, nested to depth 1 or 2, violating the inner type, enum or maximum.
func HarnessC09SimpleItems() {
	inner := &spec.Items{}
	bad := false
	switch verifChoose(4) {
	case 0: // wrong type
		inner.Type = "integer"
		if verifBool() {
			inner.Default, inner.Example, bad = "x", "x", true
		} else {
			inner.Default, inner.Example = int64(1), int64(1)
		}
	case 1: // outside the enum
		inner.Type = "string"
		inner.Enum = []interface{}{"a", "b"}
		if verifBool() {
			inner.Default, inner.Example, bad = "zzz", "zzz", true
		} else {
			inner.Default, inner.Example = "a", "a"
		}
	case 2: // above the maximum
		inner.Type = "number"
		inner.Maximum = ptrF(2)
		if verifBool() {
			inner.Default, inner.Example, bad = 3.0, 3.0, true
		} else {
			inner.Default, inner.Example = 1.0, 1.0
		}
	default: // too long
		inner.Type = "string"
		inner.MaxLength = ptrI(1)
		if verifBool() {
			inner.Default, inner.Example, bad = "ab", "ab", true
		} else {
			inner.Default, inner.Example = "a", "a"
		}
	}
	items := inner
	if verifBool() { // depth 2: items of items
		items = &spec.Items{}
		items.Type = "array"
		items.Items = inner
	}
	op := &spec.Operation{}
	op.ID = "op"
	op.Responses = &spec.Responses{}
	if verifBool() {
		p := spec.Parameter{}
		p.Name, p.In, p.Type, p.Items = "q", "query", "array", items
		op.Parameters = []spec.Parameter{p}
	} else {
		h := spec.Header{}
		h.Type, h.Items = "array", items
		resp := spec.Response{}
		resp.Description = "ok"
		resp.Headers = map[string]spec.Header{"X-H": h}
		op.Responses.StatusCodeResponses = map[int]spec.Response{200: resp}
	}
	ops := map[string]map[string]*spec.Operation{"GET": {"/p": op}}
	s := newSpecHarnessValidator(&spec.Swagger{}, ops, true, true)
	d := &defaultValidator{SpecValidator: s, schemaOptions: s.schemaOptions}
	gotD := outcomeOfResult(d.Validate())
	ex := &exampleValidator{SpecValidator: s, schemaOptions: s.schemaOptions}
	gotE := outcomeOfResult(ex.Validate())
	verifObserve("defaults-valid", gotD.valid)
	verifAssert(gotD.valid == !bad, "rejected-items-default-is-an-error-and-only-then")
	verifAssert(gotE.valid, "examples-never-make-errors")
	verifAssert((len(gotE.warns) > 0) == bad, "rejected-items-example-is-a-warning-and-only-then")
	verifReach("end")
}

// HarnessC04SpecValidate: whole-specification validation (stubbed dependencies) borrows validators and
// results from the pools; with every pool handing out stale objects the outcome must be the same.
func HarnessC04SpecValidate() {
	sw, ops, _ := genSmallSpec()
	cont := verifBool()
	baseE, baseW := runWholeValidate(sw, ops, cont)
	verifHavocPools(true)
	havE, havW := runWholeValidate(sw, ops, cont)
	verifHavocPools(false)
	verifAssert(sameOutcome(baseE, havE), "spec-validation-outcome-independent-of-pool-contents")
	verifAssert(sameOutcome(baseW, havW), "spec-validation-warnings-independent-of-pool-contents")
	verifObserve("valid", baseE.valid)
	verifReach("end")
}

// HarnessC05SpecParallel: two goroutines validate two distinct documents at the same time.
func HarnessC05SpecParallel() {
	sw1, ops1, f := genSmallSpec()
	verifAssume(!f.badExample && !f.roReq)
	sw2 := &spec.Swagger{}
	d2 := spec.Schema{}
	d2.Type = spec.StringOrArray{"object"}
	if verifBool() {
		d2.Required = []string{"nowhere"}
	}
	sw2.Definitions = spec.Definitions{"E": d2}
	sw2.Paths = &spec.Paths{Paths: map[string]spec.PathItem{"/q": {}}}
	solo1, _ := runWholeValidate(sw1, ops1, true)
	solo2, _ := runWholeValidate(sw2, nil, true)
	var o1 verifOutcome
	s1 := newSpecHarnessValidator(sw1, ops1, true, true)
	s1.schema = &spec.Schema{}
	s1.schema.Definitions = spec.Definitions{"parameter": wholeParamSchema()}
	s2 := newSpecHarnessValidator(sw2, nil, true, true)
	s2.schema = &spec.Schema{}
	s2.schema.Definitions = spec.Definitions{"parameter": wholeParamSchema()}
	verifGo(func() {
		e, _ := s1.Validate(s1.spec)
		o1 = outcomeOfResult(e)
	})
	e2, _ := s2.Validate(s2.spec)
	o2 := outcomeOfResult(e2)
	verifJoin()
	verifAssert(sameOutcome(o1, solo1), "goroutine-1-outcome-equals-solo")
	verifAssert(sameOutcome(o2, solo2), "goroutine-2-outcome-equals-solo")
	verifReach("end")
}

// ---------- R6: no duplicate inherited properties, no circular ancestry ----------

// HarnessC03Ancestry: three definitions A, B, C; each may inherit (allOf [$ref, inline]) from one
// other definition chosen by the solver and declares one inline property chosen from {p, q}.
func HarnessC03Ancestry() {
	names := []string{"A", "B", "C"}
	parent := [3]int{verifChoose(4) - 1, verifChoose(4) - 1, verifChoose(4) - 1} // -1: no parent
	prop := [3]string{[]string{"p", "q"}[verifChoose(2)], []string{"p", "q"}[verifChoose(2)], []string{"p", "q", "r"}[verifChoose(3)]}
	sw := &spec.Swagger{}
	sw.Definitions = spec.Definitions{}
	for i, n := range names {
		own := spec.Schema{}
		own.Properties = map[string]spec.Schema{prop[i]: {}}
		if parent[i] < 0 {
			sw.Definitions[n] = own
			continue
		}
		d := spec.Schema{}
		d.AllOf = []spec.Schema{*spec.RefSchema("#/definitions/" + names[parent[i]]), own}
		sw.Definitions[n] = d
	}
	// oracle: walk the ancestry of every definition that inherits
	ok := true
	for i := range names {
		if parent[i] < 0 {
			continue
		}
		seen := map[int]bool{i: true}
		props := map[string]bool{prop[i]: true}
		for j := parent[i]; j >= 0; j = parent[j] {
			if seen[j] {
				ok = false // circular ancestry
				break
			}
			seen[j] = true
			if props[prop[j]] {
				ok = false // a property already declared by a descendant / ancestor
			}
			props[prop[j]] = true
		}
	}
	s := newSpecHarnessValidator(sw, nil, true, true)
	verifPermMaps(true)
	got := outcomeOfResult(s.validateDuplicatePropertyNames())
	verifPermMaps(false)
	verifObserve("valid", got.valid)
	verifAssert(got.valid == ok, "no-duplicate-inherited-properties-and-no-circular-ancestry")
	verifReach("end")
}

// HarnessC07Malformed: wrongly typed and incomplete simple parameters, headers and items (arrays
// without items, with or without a format; nested arrays; a type that is not one; a format alone;
// enum / default of the wrong type; nil Items) pushed through every per-operation rule and both
// traversals, in both continue-on-errors modes. Only normal return is asserted: which of the rules
// reports the malformation (or the meta-schema pass, which is not encoded) is C03's subject.
func genMalformedSimple() (typ, format string, items *spec.Items) {
	typ = []string{"array", "string", "", "object", "file"}[verifChoose(5)]
	format = []string{"", "csv", "int32"}[verifChoose(3)]
	switch verifChoose(4) {
	case 1:
		items = &spec.Items{}
	case 2:
		items = &spec.Items{}
		items.Type = "array"
		items.Format = []string{"", "csv"}[verifChoose(2)]
	case 3:
		items = &spec.Items{}
		items.Type = "array"
		items.Items = &spec.Items{}
		items.Items.Type = "array"
		items.Items.Format = "pipes"
	}
	return
}

func HarnessC07Malformed() {
	op := &spec.Operation{}
	op.ID = "op"
	p := spec.Parameter{}
	p.Name = "q"
	p.In, p.Type = "query", "string"
	if verifBool() { // the malformation sits in the parameter
		locs := []string{"query", "path", "", "header", "formData"}
		p.In = locs[verifChoose(3+2*verifTier())]
		p.Type, p.Format, p.Items = genMalformedSimple()
		switch verifChoose(3) {
		case 1:
			p.Default = []interface{}{"a"}
			p.Enum = []interface{}{1.0, nil}
		case 2:
			p.Default = "x"
			p.Example = 1.0
		}
	} else { // ... or in a response header
		h := spec.Header{}
		h.Type, h.Format, h.Items = genMalformedSimple()
		if verifBool() {
			h.Default = []interface{}{nil, "a"}
		}
		resp := spec.Response{}
		resp.Headers = map[string]spec.Header{"X": h}
		op.Responses = &spec.Responses{}
		op.Responses.StatusCodeResponses = map[int]spec.Response{200: resp}
	}
	op.Parameters = []spec.Parameter{p}
	ops := map[string]map[string]*spec.Operation{"GET": {"/p/{q}": op}}
	cont := verifBool()
	sw := &spec.Swagger{}
	// parameters declared by the path item: none, an inline one, a reference into #/parameters that
	// resolves, one that leads nowhere
	pi := spec.PathItem{}
	switch verifChoose(4) {
	case 1:
		pi.Parameters = []spec.Parameter{*spec.HeaderParam("h").Typed("string", "")}
	case 2:
		sw.Parameters = map[string]spec.Parameter{"shared": *spec.QueryParam("s").Typed("string", "")}
		pi.Parameters = []spec.Parameter{*spec.ParamRef("#/parameters/shared")}
	case 3:
		pi.Parameters = []spec.Parameter{*spec.ParamRef("#/parameters/nope"), *spec.HeaderParam("h").Typed("string", "")}
	}
	sw.Paths = &spec.Paths{Paths: map[string]spec.PathItem{"/p/{q}": pi}}
	s := newSpecHarnessValidator(sw, ops, cont, true)
	verifAssert(s.validateItems() != nil, "items-rule-returns")
	verifAssert(s.validateParameters() != nil, "parameters-rule-returns")
	verifAssert(s.validateNonEmptyPathParamNames() != nil, "path-names-rule-returns")
	d := &defaultValidator{SpecValidator: s, schemaOptions: s.schemaOptions}
	_ = d.Validate()
	ex := &exampleValidator{SpecValidator: s, schemaOptions: s.schemaOptions}
	_ = ex.Validate()
	verifReach("end")
}

// HarnessC12Spec: the parsed specification is read-only for validate's own code: every cell reachable
// from the document and from the operations index is frozen while the whole Validate runs (both
// continue-on-errors modes) on a small document with a body parameter, an array parameter whose
// default / example / enum are unsorted string arrays under uniqueItems, a response with headers,
// and the four solver-chosen rule violations of genSmallSpec.
// (Writes made inside the loader / analyser / expander are behind the stubs and outside the claim.)
func HarnessC12Spec() {
	sw, ops, _ := genSmallSpec()
	op := ops["GET"]["/p"]
	body := spec.BodyParam("b", spec.RefSchema("#/definitions/D"))
	q := spec.QueryParam("q").CollectionOf(spec.NewItems().Typed("string", ""), "csv")
	q.UniqueItems = verifBool()
	q.Default = []interface{}{"pear", "apple", "fig"}
	q.Example = []interface{}{"pear", "apple", "fig"}
	if verifBool() {
		q.Enum = []interface{}{[]interface{}{"pear", "apple", "fig"}}
	}
	op.Parameters = []spec.Parameter{*body, *q}
	h := spec.ResponseHeader().CollectionOf(spec.NewItems().Typed("string", ""), "csv")
	h.UniqueItems = q.UniqueItems
	h.Default = []interface{}{"b", "a", "c"}
	resp := spec.Response{}
	resp.Description = "ok"
	resp.Headers = map[string]spec.Header{"X": *h}
	resp.Schema = spec.RefSchema("#/definitions/D")
	op.Responses.StatusCodeResponses = map[int]spec.Response{200: resp}
	cont := verifBool()
	// parameters shared at the path item level, one of them a reference into #/parameters
	sw.Parameters = map[string]spec.Parameter{"limit": *spec.QueryParam("limit").Typed("integer", "int32")}
	pi := sw.Paths.Paths["/p"]
	pi.Parameters = []spec.Parameter{*spec.ParamRef("#/parameters/limit"), *spec.HeaderParam("h").Typed("string", "")}
	sw.Paths.Paths["/p"] = pi
	s := newSpecHarnessValidator(sw, ops, cont, true)
	s.schema = &spec.Schema{}
	s.schema.Definitions = spec.Definitions{"parameter": wholeParamSchema()}
	verifFreeze(sw, "specification")
	verifFreeze(ops, "operations")
	_, _ = s.Validate(s.spec)
	verifUnfreeze()
	verifReach("end")
}

// HarnessC03Patterns: the "valid patterns" rule: one regular expression that does not compile,
// placed by the solver in one of the places a specification can carry a pattern (or nowhere),
// next to valid patterns everywhere else; the whole Validate must report an error exactly then,
// in both continue-on-errors modes.
func HarnessC03Patterns() {
	place := verifChoose(11)
	pat := func(i int) string {
		if place == i {
			return []string{"(", "[a-", "a{2,1}"}[verifChoose(3)]
		}
		return []string{"", "^a+$"}[i%2] // elsewhere: absent or valid
	}
	sw := &spec.Swagger{}
	def := schemaOfType("string")
	def.Pattern = pat(1)
	obj := schemaOfType("object")
	prop := schemaOfType("string")
	prop.Pattern = pat(2)
	el := schemaOfType("string")
	el.Pattern = pat(3)
	arr := schemaOfType("array")
	arr.Items = &spec.SchemaOrArray{Schema: &el}
	obj.Properties = map[string]spec.Schema{"p": prop, "list": arr}
	sw.Definitions = spec.Definitions{"S": def, "O": obj}
	op := &spec.Operation{}
	op.ID = "op"
	bodySch := schemaOfType("string")
	bodySch.Pattern = pat(4)
	q := spec.QueryParam("q").CollectionOf(spec.NewItems().Typed("string", ""), "csv")
	q.Items.Pattern = pat(5)
	single := spec.QueryParam("r").Typed("string", "")
	single.Pattern = pat(6)
	other := spec.HeaderParam("n").Typed([]string{"integer", "boolean"}[verifChoose(2)], "")
	other.Pattern = pat(10) // a pattern on a parameter that is not a string is still an expression that must compile
	if other.Pattern == "^a+$" {
		other.Pattern = ""
	}
	op.Parameters = []spec.Parameter{*spec.BodyParam("b", &bodySch), *q, *single, *other}
	respSch := schemaOfType("string")
	respSch.Pattern = pat(7)
	h := spec.ResponseHeader().Typed("string", "")
	h.Pattern = pat(8)
	hArr := spec.ResponseHeader().CollectionOf(spec.NewItems().Typed("string", ""), "csv")
	hArr.Items.Pattern = pat(9)
	resp := spec.Response{}
	resp.Description = "ok"
	resp.Schema = &respSch
	resp.Headers = map[string]spec.Header{"X": *h, "Y": *hArr}
	op.Responses = &spec.Responses{}
	op.Responses.StatusCodeResponses = map[int]spec.Response{200: resp}
	ops := map[string]map[string]*spec.Operation{"POST": {"/p": op}}
	cont := verifBool()
	errs, _ := runWholeValidate(sw, ops, cont)
	verifObserve("valid", errs.valid)
	verifAssert(errs.valid == (place == 0), "invalid-pattern-is-an-error-and-only-then")
	verifReach("end")
}

// HarnessC09Places: ONE default-and-example pair, accepted or rejected by its own definition,
// placed by the solver in one of the places a specification can carry them; the defaults traversal
// must report an error, and the examples traversal a warning, exactly when the value is rejected.
func HarnessC09Places() {
	place := verifChoose(15)
	bad := verifBool()
	num := func() interface{} { // for {type: number, maximum: 2}
		if bad {
			return 3.0
		}
		return 1.0
	}
	arr := func() interface{} { // for an array of integers with maxItems 2
		if bad {
			if verifBool() {
				return []interface{}{1.0, "two"}
			}
			return []interface{}{1.0, 2.0, 3.0}
		}
		return []interface{}{1.0, 2.0}
	}
	numSchema := func() *spec.Schema {
		s := numSchemaMax(2, num())
		return &s
	}
	intItems := func() *spec.Items {
		it := spec.NewItems().Typed("integer", "")
		return it
	}
	op := &spec.Operation{}
	op.ID = "op"
	op.Responses = &spec.Responses{}
	ok := spec.Response{}
	ok.Description = "ok"
	dflt := spec.Response{}
	dflt.Description = "default"
	sw := &spec.Swagger{}
	exampleOnly, defaultOnly := false, false
	switch place {
	case 0: // simple parameter
		p := spec.QueryParam("q").Typed("number", "")
		p.Maximum = ptrF(2)
		p.Default, p.Example = num(), num()
		op.Parameters = []spec.Parameter{*p}
	case 1: // array parameter: its own default, next to items
		p := spec.QueryParam("q").CollectionOf(intItems(), "csv")
		p.MaxItems = ptrI(2)
		p.Default, p.Example = arr(), arr()
		op.Parameters = []spec.Parameter{*p}
	case 2: // items of a parameter
		it := spec.NewItems().Typed("number", "")
		it.Maximum = ptrF(2)
		it.Default, it.Example = num(), num()
		op.Parameters = []spec.Parameter{*spec.QueryParam("q").CollectionOf(it, "csv")}
	case 3: // body parameter schema
		op.Parameters = []spec.Parameter{*spec.BodyParam("b", numSchema())}
	case 4: // scalar header of a status-code response
		h := spec.ResponseHeader().Typed("number", "")
		h.Maximum = ptrF(2)
		h.Default, h.Example = num(), num()
		ok.Headers = map[string]spec.Header{"X": *h}
	case 5: // array header: its own default, next to items
		h := spec.ResponseHeader().CollectionOf(intItems(), "csv")
		h.MaxItems = ptrI(2)
		h.Default, h.Example = arr(), arr()
		ok.Headers = map[string]spec.Header{"X": *h}
	case 6: // items of a header
		it := spec.NewItems().Typed("number", "")
		it.Maximum = ptrF(2)
		it.Default, it.Example = num(), num()
		ok.Headers = map[string]spec.Header{"X": *spec.ResponseHeader().CollectionOf(it, "csv")}
	case 7: // schema of a status-code response
		ok.Schema = numSchema()
	case 8: // schema of the default response
		dflt.Schema = numSchema()
	case 9: // header of the default response
		h := spec.ResponseHeader().Typed("number", "")
		h.Maximum = ptrF(2)
		h.Default, h.Example = num(), num()
		dflt.Headers = map[string]spec.Header{"X": *h}
	case 10: // per-media-type example of a response, judged by the response schema
		sch := schemaOfType("number")
		sch.Maximum = ptrF(2)
		ok.Schema = &sch
		ok.Examples = map[string]interface{}{"application/json": num()}
		exampleOnly = true
	case 11: // definition: property
		d := spec.Schema{}
		d.Properties = map[string]spec.Schema{"p": *numSchema()}
		sw.Definitions = spec.Definitions{"D": d}
	case 12: // definition: additionalProperties
		d := spec.Schema{}
		d.AdditionalProperties = &spec.SchemaOrBool{Allows: true, Schema: numSchema()}
		sw.Definitions = spec.Definitions{"D": d}
	case 13: // definition: second position of tuple items
		d := spec.Schema{}
		d.Items = &spec.SchemaOrArray{Schemas: []spec.Schema{{}, *numSchema()}}
		sw.Definitions = spec.Definitions{"D": d}
	default: // definition: allOf member of a property
		in := spec.Schema{}
		in.AllOf = []spec.Schema{{}, *numSchema()}
		d := spec.Schema{}
		d.Properties = map[string]spec.Schema{"p": in}
		sw.Definitions = spec.Definitions{"D": d}
	}
	_ = defaultOnly
	op.Responses.StatusCodeResponses = map[int]spec.Response{200: ok}
	if place == 8 || place == 9 || verifBool() {
		op.Responses.Default = &dflt
	}
	ops := map[string]map[string]*spec.Operation{"GET": {"/p": op}}
	s := newSpecHarnessValidator(sw, ops, true, true)
	d := &defaultValidator{SpecValidator: s, schemaOptions: s.schemaOptions}
	gotD := outcomeOfResult(d.Validate())
	ex := &exampleValidator{SpecValidator: s, schemaOptions: s.schemaOptions}
	gotE := outcomeOfResult(ex.Validate())
	verifObserve("defaults-valid", gotD.valid)
	if !exampleOnly {
		verifAssert(gotD.valid == !bad, "rejected-default-is-an-error-and-only-then")
	}
	verifAssert(gotE.valid, "examples-never-make-errors")
	verifAssert((len(gotE.warns) > 0) == bad, "rejected-example-is-a-warning-and-only-then")
	verifReach("end")
}

// HarnessC03Ancestry2: two inheritance shapes the first harness does not draw: a child that declares
// its own properties BESIDE its allOf (the usual Swagger idiom), and a diamond (A inherits from B
// and C, which both inherit from D): no cycle there, and D's property is one declaration reached twice.
func HarnessC03Ancestry2() {
	sw := &spec.Swagger{}
	ok := true
	withProp := func(name string) spec.Schema {
		s := spec.Schema{}
		s.Properties = map[string]spec.Schema{name: {}}
		return s
	}
	ref := func(n string) spec.Schema { return *spec.RefSchema("#/definitions/" + n) }
	if verifBool() {
		x := []string{"p", "q"}[verifChoose(2)]
		y := []string{"p", "q"}[verifChoose(2)]
		child := withProp(y) // own properties beside allOf
		child.AllOf = []spec.Schema{ref("P")}
		if verifBool() {
			child.AllOf = append(child.AllOf, withProp("z"))
		}
		sw.Definitions = spec.Definitions{"P": withProp(x), "K": child}
		ok = x != y
	} else {
		d := []string{"p", "q"}[verifChoose(2)]
		b := []string{"p", "r"}[verifChoose(2)]
		c := []string{"q", "s"}[verifChoose(2)]
		a := []string{"t", "r"}[verifChoose(2)]
		mk := func(own string, parents ...string) spec.Schema {
			s := spec.Schema{}
			for _, p := range parents {
				s.AllOf = append(s.AllOf, ref(p))
			}
			s.AllOf = append(s.AllOf, withProp(own))
			return s
		}
		sw.Definitions = spec.Definitions{"D": withProp(d), "B": mk(b, "D"), "C": mk(c, "D"), "A": mk(a, "B", "C")}
		ok = !(b == d || c == d || a == b || a == c || a == d || b == c)
	}
	s := newSpecHarnessValidator(sw, nil, true, true)
	verifPermMaps(true)
	got := outcomeOfResult(s.validateDuplicatePropertyNames())
	verifPermMaps(false)
	verifObserve("valid", got.valid)
	verifAssert(got.valid == ok, "no-duplicate-inherited-properties-and-no-circular-ancestry")
	verifReach("end")
}

// HarnessC10MapOrder: rules that walk Go maps, run twice under two solver-chosen iteration orders of
// every map: the set of messages must be the same (three mutually overlapping paths; one or two children
// that re-declare inherited properties, continue-on-errors on and off; three operations sharing an id).
func HarnessC10MapOrder() {
	var run func() verifOutcome
	switch verifChoose(2) {
	case 0:
		mk := func(name string) *spec.Operation {
			op := &spec.Operation{}
			op.ID = "op" + name
			p := spec.Parameter{}
			p.Name, p.In, p.Type, p.Required = name, "path", "string", true
			op.Parameters = []spec.Parameter{p}
			return op
		}
		ops := map[string]map[string]*spec.Operation{"GET": {"/a/{x}": mk("x"), "/a/{y}": mk("y"), "/a/{z}": mk("z")}}
		s := newSpecHarnessValidator(&spec.Swagger{}, ops, verifBool(), true)
		run = func() verifOutcome { return outcomeOfResult(s.validateParameters()) }
	default:
		parent := spec.Schema{}
		parent.Properties = map[string]spec.Schema{"p": {}, "q": {}, "r": {}}
		own := spec.Schema{}
		own.Properties = map[string]spec.Schema{"p": {}, "q": {}}
		variant := verifChoose(3) // 0: two re-declared members; 1: three; 2: two, and a second offending child
		if variant == 1 {
			own.Properties["r"] = spec.Schema{}
		}
		child := spec.Schema{}
		child.AllOf = []spec.Schema{*spec.RefSchema("#/definitions/P"), own}
		sw := &spec.Swagger{}
		sw.Definitions = spec.Definitions{"P": parent, "K": child}
		if variant == 2 { // a second offending definition: which one is met first depends on the map order
			own2 := spec.Schema{}
			own2.Properties = map[string]spec.Schema{"q": {}}
			child2 := spec.Schema{}
			child2.AllOf = []spec.Schema{*spec.RefSchema("#/definitions/P"), own2}
			sw.Definitions["K2"] = child2
		}
		s := newSpecHarnessValidator(sw, nil, verifBool(), true)
		run = func() verifOutcome { return outcomeOfResult(s.validateDuplicatePropertyNames()) }
	}
	verifPermMaps(true)
	first := run()
	second := run()
	verifPermMaps(false)
	verifAssert(!first.valid && !second.valid, "the-broken-rule-is-reported")
	verifAssert(verifSameSet(first.errs, second.errs), "error-set-independent-of-map-order")
	verifReach("end")
}

// HarnessC09TwoOperations: two operations whose responses share a status code (or both have a default
// response), each response schema carrying a default that is accepted or rejected; no parameters, no
// headers; the operations are visited in every map order: every rejected default is an error.
func HarnessC09TwoOperations() {
	bad1, bad2 := verifBool(), verifBool()
	val := func(bad bool) interface{} {
		if bad {
			return 3.0
		}
		return 1.0
	}
	mk := func(id string, bad bool, asDefault bool) *spec.Operation {
		op := &spec.Operation{}
		op.ID = id
		sch := spec.Schema{}
		sch.Properties = map[string]spec.Schema{"p": numSchemaMax(2, val(bad))}
		resp := spec.Response{}
		resp.Description = "ok"
		resp.Schema = &sch
		op.Responses = &spec.Responses{}
		if asDefault {
			op.Responses.Default = &resp
		} else {
			op.Responses.StatusCodeResponses = map[int]spec.Response{200: resp}
		}
		return op
	}
	asDefault := verifBool()
	var ops map[string]map[string]*spec.Operation
	if verifBool() {
		ops = map[string]map[string]*spec.Operation{"GET": {"/a": mk("a", bad1, asDefault), "/b": mk("b", bad2, asDefault)}}
	} else {
		ops = map[string]map[string]*spec.Operation{"GET": {"/a": mk("a", bad1, asDefault)}, "POST": {"/a": mk("b", bad2, asDefault)}}
	}
	s := newSpecHarnessValidator(&spec.Swagger{}, ops, true, true)
	verifPermMaps(true)
	d := &defaultValidator{SpecValidator: s, schemaOptions: s.schemaOptions}
	gotD := outcomeOfResult(d.Validate())
	ex := &exampleValidator{SpecValidator: s, schemaOptions: s.schemaOptions}
	gotE := outcomeOfResult(ex.Validate())
	verifPermMaps(false)
	verifAssert(gotD.valid == !(bad1 || bad2), "rejected-default-is-an-error-and-only-then")
	verifAssert((len(gotE.warns) > 0) == (bad1 || bad2), "rejected-example-is-a-warning-and-only-then")
	verifReach("end")
}

// HarnessC03SharedParameters: parameters declared by the path item (shared by its operations): they
// must be unique by name + location among themselves; an operation-level parameter with the same
// name + location overrides the shared one (no error).
func HarnessC03SharedParameters() {
	mk := func() spec.Parameter {
		name := []string{"x", "y"}[verifChoose(2)]
		if verifBool() {
			return *spec.QueryParam(name).Typed("string", "")
		}
		return *spec.HeaderParam(name).Typed("integer", "")
	}
	pi := spec.PathItem{}
	n := verifChoose(4)
	for i := 0; i < n; i++ {
		pi.Parameters = append(pi.Parameters, mk())
	}
	op := &spec.Operation{}
	op.ID = "op"
	if verifBool() {
		op.Parameters = []spec.Parameter{mk()} // may override a shared one
	}
	dup := false
	for i := range pi.Parameters {
		for j := 0; j < i; j++ {
			if pi.Parameters[i].Name == pi.Parameters[j].Name && pi.Parameters[i].In == pi.Parameters[j].In {
				dup = true
			}
		}
	}
	sw := &spec.Swagger{}
	sw.Paths = &spec.Paths{Paths: map[string]spec.PathItem{"/p": pi}}
	ops := map[string]map[string]*spec.Operation{"GET": {"/p": op}}
	s := newSpecHarnessValidator(sw, ops, verifBool(), true)
	got := outcomeOfResult(s.validateParameters())
	verifObserve("valid", got.valid)
	verifAssert(got.valid == !dup, "shared-parameters-unique-by-name-and-location")
	verifReach("end")
}

// HarnessC07SchemaItems: array schemas of a body parameter and of a response in every items shape
// (none, single schema, tuple, empty tuple, array of arrays ending in a tuple, invalid pattern on the
// element): the items rule returns normally, and reports an error exactly when some array level
// declares no items (or a pattern does not compile).
func HarnessC07SchemaItems() {
	str := schemaOfType("string")
	if verifBool() {
		str.Pattern = "("
	}
	badPattern := str.Pattern == "("
	arr := func(items *spec.SchemaOrArray) spec.Schema {
		s := schemaOfType("array")
		s.Items = items
		return s
	}
	var sch spec.Schema
	want := true
	switch verifChoose(6) {
	case 0:
		sch = arr(nil)
		want = false
	case 1:
		sch = arr(&spec.SchemaOrArray{Schema: &str})
		want = !badPattern
	case 2:
		sch = arr(&spec.SchemaOrArray{Schemas: []spec.Schema{str, schemaOfType("number")}})
	case 3:
		sch = arr(&spec.SchemaOrArray{Schemas: []spec.Schema{}})
		want = false
	case 4:
		inner := arr(&spec.SchemaOrArray{Schemas: []spec.Schema{str}})
		sch = arr(&spec.SchemaOrArray{Schema: &inner})
	default:
		inner := arr(nil)
		sch = arr(&spec.SchemaOrArray{Schema: &inner})
		want = false
	}
	op := &spec.Operation{}
	op.ID = "op"
	op.Responses = &spec.Responses{}
	if verifBool() {
		op.Parameters = []spec.Parameter{*spec.BodyParam("b", &sch)}
	} else {
		resp := spec.Response{}
		resp.Description = "ok"
		resp.Schema = &sch
		op.Responses.StatusCodeResponses = map[int]spec.Response{200: resp}
	}
	ops := map[string]map[string]*spec.Operation{"POST": {"/p": op}}
	s := newSpecHarnessValidator(&spec.Swagger{}, ops, verifBool(), true)
	got := outcomeOfResult(s.validateItems())
	verifObserve("valid", got.valid)
	if verifChecking("C03") {
		verifAssert(got.valid == want, "array-schemas-declare-items")
	}
	verifReach("end")
}
