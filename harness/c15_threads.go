//go:build verif

package validate

// C15 — pattern matching always uses the expression that was asked for.
// C05 — concurrent validations are race-free and independent of each other.
// Goroutines are cooperative threads inside the engine; the thread to run at every visible
// operation (mutex, atomic, pool, package-level variable, start, exit) is a solver-instantiated
// choice within a preemption bound; a vector-clock happens-before monitor flags data races.

import (
	"github.com/go-openapi/spec"
)

// the last three: an expression that does not compile whose offending fragment ("z-a") is itself a
// valid expression, that fragment, and a second one of the kind ("[[:alphanum:]]" / "[:alphanum:]")
var c15Pats = []string{"^a", "b$", "c+", "(", "^[z-a]+$", "z-a", "[[:alphanum:]]", "[:alphanum:]"}
var c15Valid = []bool{true, true, true, false, false, true, false, true}

// long expressions (> 64 bytes) of the same length that share their first and last 32 bytes and
// differ in the middle only: two valid ones with different meanings and one that does not compile
var c15Long = []string{
	"^(?:ALPHA|BRAVO|CHARLIE|DELTA|ECHO|FOXTROT|GOLF|HOTEL|INDIA|JULIET|KILO|LIMA|MIKE|NOVEMBER|OSCAR)$",
	"^(?:ALPHA|BRAVO|CHARLIE|DELTA|ECHO|FOXTROT|GOLF|MOTEL|INDIA|JULIET|KILO|LIMA|MIKE|NOVEMBER|OSCAR)$",
	"^(?:ALPHA|BRAVO|CHARLIE|DELTA|ECHO|FOXTROT|GOLF|HO(EL|INDIA|JULIET|KILO|LIMA|MIKE|NOVEMBER|OSCAR)$",
}
var c15LongValid = []bool{true, true, false}

// HarnessC15Long: two or three uses of long expressions that agree on length, head and tail
func HarnessC15Long() {
	for step := 0; step < 2+verifTier(); step++ {
		i := verifChoose(len(c15Long))
		ok, src := c15Use(c15Long[i])
		verifAssert(ok == c15LongValid[i], "invalid-pattern-reported-valid-compiled")
		verifAssert(!ok || src == c15Long[i], "expression-is-the-requested-one")
		if ok {
			r, _ := compileRegexp(c15Long[i])
			verifAssert(r.MatchString("HOTEL") == verifMatches(c15Long[i], "HOTEL"), "matching-behaves-like-go-regexp")
			verifAssert(Pattern("p", "q", "MOTEL", c15Long[i]) == nil == verifMatches(c15Long[i], "MOTEL"), "pattern-helper-uses-the-requested-expression")
		}
	}
	verifReach("end")
}

func c15Use(p string) (ok bool, src string) {
	r, err := compileRegexp(p)
	if err != nil {
		return false, ""
	}
	return true, r.String()
}

// HarnessC15Sequential: histories of 4 calls in one goroutine.
func HarnessC15Sequential() {
	for step := 0; step < 3+verifTier(); step++ {
		i := verifChoose(len(c15Pats))
		ok, src := c15Use(c15Pats[i])
		verifAssert(ok == c15Valid[i], "invalid-pattern-reported-valid-compiled")
		verifAssert(!ok || src == c15Pats[i], "expression-is-the-requested-one")
		if ok {
			r, _ := compileRegexp(c15Pats[i])
			verifAssert(r.MatchString("ab") == verifMatches(c15Pats[i], "ab"), "matching-behaves-like-go-regexp")
		}
	}
	m := mustCompileRegexp(c15Pats[verifChoose(3)])
	verifAssert(m != nil, "must-compile-returns-an-expression")
	verifReach("end")
}

// HarnessC15Concurrent: two goroutines, three calls in total (a lock-free reader must meet a map
// that is already published while the other goroutine inserts), then a later sequential use.
func HarnessC15Concurrent() {
	i, j, k := verifChoose(6), verifChoose(6), verifChoose(6)
	var ok1 bool
	var s1 string
	verifGo(func() {
		ok1, s1 = c15Use(c15Pats[i])
	})
	ok2, s2 := c15Use(c15Pats[j])
	ok3, s3 := c15Use(c15Pats[k])
	verifJoin()
	verifAssert(ok1 == c15Valid[i] && ok2 == c15Valid[j] && ok3 == c15Valid[k], "invalid-pattern-reported-valid-compiled")
	verifAssert((!ok1 || s1 == c15Pats[i]) && (!ok2 || s2 == c15Pats[j]) && (!ok3 || s3 == c15Pats[k]), "expression-is-the-requested-one")
	ok4, s4 := c15Use(c15Pats[i])
	verifAssert(ok4 == c15Valid[i] && (!ok4 || s4 == c15Pats[i]), "later-use-sees-the-requested-expression")
	verifReach("end")
}

// HarnessC15Three (thorough): three goroutines, four calls.
func HarnessC15Three() {
	i, j, k := verifChoose(3), verifChoose(3), verifChoose(3)
	var ok1, ok2 bool
	var s1, s2 string
	verifGo(func() { ok1, s1 = c15Use(c15Pats[i]) })
	verifGo(func() { ok2, s2 = c15Use(c15Pats[j]) })
	ok3, s3 := c15Use(c15Pats[k])
	ok4, s4 := c15Use(c15Pats[i])
	verifJoin()
	verifAssert(ok1 && ok2 && ok3 && ok4, "valid-patterns-compile")
	verifAssert(s1 == c15Pats[i] && s2 == c15Pats[j] && s3 == c15Pats[k] && s4 == c15Pats[i], "expression-is-the-requested-one")
	verifReach("end")
}

// ---------- C05 ----------

// HarnessC05Options: the package-level option setter next to the construction of a spec validator.
func HarnessC05Options() {
	c := verifBool()
	var got bool
	verifGo(func() { SetContinueOnErrors(c) })
	v := NewSpecValidator(nil, nil)
	got = v.Options.ContinueOnErrors
	verifJoin()
	verifAssert(got == c || got == false, "validator-sees-old-or-new-default")
	SetContinueOnErrors(false)
	verifReach("end")
}

func c05Schema() *spec.Schema {
	s := strSchema("", 2)
	return &s
}

// HarnessC05OneShot: two goroutines validate at the same time through the pools; each outcome equals its solo outcome.
func HarnessC05OneShot() {
	s := c05Schema()
	d1 := []interface{}{"a", "ab", 1.0}[verifChoose(3)]
	d2 := []interface{}{"a", "ab", 1.0}[verifChoose(3)]
	solo1 := runFresh(s, d1, nil)
	solo2 := runFresh(s, d2, nil)
	// the callers share one option list that has spare capacity (as a slice built with append often has)
	opts := make([]Option, 1, 4)
	opts[0] = EnableObjectArrayTypeCheck(false)
	var o1 verifOutcome
	verifGo(func() { o1 = outcomeOfError(AgainstSchema(s, d1, nil, opts...)) })
	o2 := outcomeOfError(AgainstSchema(s, d2, nil, opts...))
	verifJoin()
	verifAssert(verifIff(o1.valid, solo1.valid) && verifSameSet(o1.errs, solo1.errs), "goroutine-1-outcome-equals-solo")
	verifAssert(verifIff(o2.valid, solo2.valid) && verifSameSet(o2.errs, solo2.errs), "goroutine-2-outcome-equals-solo")
	verifReach("end")
}

// HarnessC05Shared: one long-lived validator shared by two goroutines.
func HarnessC05Shared() {
	s := c05Schema()
	v := NewSchemaValidator(s, nil, "", nil)
	d1 := []interface{}{"a", "ab", 1.0}[verifChoose(3)]
	d2 := []interface{}{"a", "ab"}[verifChoose(2)]
	solo1 := runFresh(s, d1, nil)
	solo2 := runFresh(s, d2, nil)
	var o1 verifOutcome
	verifGo(func() { o1 = outcomeOfResult(v.Validate(d1)) })
	o2 := outcomeOfResult(v.Validate(d2))
	verifJoin()
	verifAssert(sameOutcome(o1, solo1), "goroutine-1-outcome-equals-solo")
	verifAssert(sameOutcome(o2, solo2), "goroutine-2-outcome-equals-solo")
	verifReach("end")
}

// HarnessC05SharedObject: one long-lived (non-recycling) validator over an object schema with every
// object keyword, shared by two goroutines validating two objects at the same time.
func HarnessC05SharedObject() {
	s := &spec.Schema{}
	switch verifChoose(5) {
	case 0:
		s.Properties = map[string]spec.Schema{"a": strSchema("", 1)}
		s.PatternProperties = map[string]spec.Schema{"^s_": strSchema("", 1), "_n$": schemaOfType("number")}
		s.AdditionalProperties = &spec.SchemaOrBool{Allows: false}
	case 1:
		s.Required = []string{"a"}
		s.MinProperties = ptrI(1)
		l := strSchema("", 1)
		s.AdditionalProperties = &spec.SchemaOrBool{Allows: true, Schema: &l}
	case 2:
		inner := spec.Schema{}
		inner.PatternProperties = map[string]spec.Schema{"^s_": strSchema("", 1)}
		s.AllOf = []spec.Schema{inner, {}}
		s.Dependencies = spec.Dependencies{"a": spec.SchemaOrStringArray{Property: []string{"s_x"}}}
	case 3:
		inner := spec.Schema{}
		inner.PatternProperties = map[string]spec.Schema{"^s_": strSchema("", 1)}
		inner.AdditionalProperties = &spec.SchemaOrBool{Allows: false}
		s.AnyOf = []spec.Schema{inner, schemaOfType("string")}
	default: // not, oneOf and properties with defaults (whose schemata are recorded in the result)
		no := spec.Schema{}
		no.Required = []string{"zz"}
		s.Not = &no
		withDefault := strSchema("", 1)
		withDefault.Default = "d"
		s.Properties = map[string]spec.Schema{"a": withDefault}
		s.OneOf = []spec.Schema{schemaOfType("object"), schemaOfType("string")}
	}
	v := NewSchemaValidator(s, nil, "", nil)
	objs := []interface{}{
		map[string]interface{}{"a": "x", "s_x": "y"},
		map[string]interface{}{"s_x": "", "k_n": 1.0},
		map[string]interface{}{"zz": 1.0},
	}
	d1 := objs[verifChoose(3)]
	d2 := objs[verifChoose(3)]
	solo1 := runFresh(s, d1, nil)
	solo2 := runFresh(s, d2, nil)
	var o1 verifOutcome
	verifGo(func() { o1 = outcomeOfResult(v.Validate(d1)) })
	o2 := outcomeOfResult(v.Validate(d2))
	verifJoin()
	verifAssert(sameOutcome(o1, solo1), "goroutine-1-outcome-equals-solo")
	verifAssert(sameOutcome(o2, solo2), "goroutine-2-outcome-equals-solo")
	verifReach("end")
}

// HarnessC15Recycled: two one-shot validations in a row through the (history-mode) pools, each with a
// pattern of its own, valid or not: the second one uses ITS expression (an invalid one is reported as
// such), whatever the recycled string validator served before.
func HarnessC15Recycled() {
	i, j := verifChoose(len(c15Pats)), verifChoose(len(c15Pats))
	mk := func(k int) *spec.Schema {
		s := schemaOfType("string")
		s.Pattern = c15Pats[k]
		return &s
	}
	d := []string{"ab", "z-a", "cc"}[verifChoose(3)]
	_ = AgainstSchema(mk(i), d, nil)
	got := outcomeOfError(AgainstSchema(mk(j), d, nil))
	fresh := runFresh(mk(j), d, nil)
	verifAssert(verifIff(got.valid, fresh.valid) && verifSameSet(got.errs, fresh.errs), "second-validation-uses-its-own-expression")
	verifAssert(got.valid == (c15Valid[j] && verifMatches(c15Pats[j], d)), "pattern-verdict-is-go-regexp-search")
	verifReach("end")
}
