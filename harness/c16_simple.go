//go:build verif

package validate

// C16 — parameter, header and items validators follow Swagger simple-schema semantics.
// Differential: the real NewParamValidator / NewHeaderValidator against refSimple.

import (
	"unicode/utf8"

	"github.com/go-openapi/spec"
)

// numeric value of a typed Go number (exact for the small picks used here)
func numOf(v interface{}) (float64, bool, bool) { // value, isNumber, isIntegerKind
	switch x := v.(type) {
	case int64:
		return float64(x), true, true
	case int32:
		return float64(x), true, true
	case uint8:
		return float64(x), true, true
	case uint16:
		return float64(x), true, true
	case uint64:
		return float64(x), true, true
	case float64:
		return x, true, false
	case float32:
		return float64(x), true, false
	}
	return 0, false, false
}

func refSimpleScalar(typ, format string, cv *spec.CommonValidations, v interface{}) bool {
	ok := true
	f, isNum, isIntKind := numOf(v)
	str, isStr := v.(string)
	_, isBool := v.(bool)
	switch typ {
	case "integer":
		if !isNum || !isIntKind {
			return false
		}
	case "number":
		if !isNum {
			return false
		}
	case "string":
		if !isStr {
			return false
		}
	case "boolean":
		if !isBool {
			return false
		}
	}
	if isNum {
		if cv.Maximum != nil {
			if cv.ExclusiveMaximum {
				ok = verifAnd(ok, f < *cv.Maximum)
			} else {
				ok = verifAnd(ok, f <= *cv.Maximum)
			}
		}
		if cv.Minimum != nil {
			if cv.ExclusiveMinimum {
				ok = verifAnd(ok, f > *cv.Minimum)
			} else {
				ok = verifAnd(ok, f >= *cv.Minimum)
			}
		}
		if cv.MultipleOf != nil {
			ok = verifAnd(ok, refMultipleOf(f, *cv.MultipleOf))
		}
	}
	if isStr {
		n := int64(utf8.RuneCountInString(str))
		if cv.MaxLength != nil {
			ok = verifAnd(ok, n <= *cv.MaxLength)
		}
		if cv.MinLength != nil {
			ok = verifAnd(ok, n >= *cv.MinLength)
		}
		if cv.Pattern != "" {
			ok = verifAnd(ok, verifMatches(cv.Pattern, str))
		}
		if format != "" {
			ok = verifAnd(ok, verifImplies(verifKnownFmt(format), verifFmtOK(format, str)))
		}
	}
	if len(cv.Enum) > 0 {
		any := false
		for _, e := range cv.Enum {
			ef, eNum, _ := numOf(e)
			if isNum && eNum {
				any = verifOr(any, f == ef)
			} else if es, ok2 := e.(string); ok2 && isStr {
				any = verifOr(any, es == str)
			} else if eb, ok2 := e.(bool); ok2 && isBool {
				any = verifOr(any, verifIff(eb, v.(bool)))
			}
		}
		ok = verifAnd(ok, any)
	}
	return ok
}

func refSimple(typ, format string, cv *spec.CommonValidations, items *spec.Items, v interface{}) bool {
	if typ != "array" {
		switch v.(type) {
		case []string, []int64, []uint16, []float64, [][]string, []interface{}:
			return false
		}
		return refSimpleScalar(typ, format, cv, v)
	}
	var elems []interface{}
	switch x := v.(type) {
	case []interface{}:
		elems = x // sizes and uniqueness count every element; nil elements are skipped below
	case []string:
		for _, e := range x {
			elems = append(elems, e)
		}
	case []int64:
		for _, e := range x {
			elems = append(elems, e)
		}
	case []uint16:
		for _, e := range x {
			elems = append(elems, e)
		}
	case []float64:
		for _, e := range x {
			elems = append(elems, e)
		}
	case [][]string:
		for _, e := range x {
			elems = append(elems, e)
		}
	default:
		return false
	}
	ok := true
	n := int64(len(elems))
	if cv.MinItems != nil {
		ok = verifAnd(ok, n >= *cv.MinItems)
	}
	if cv.MaxItems != nil {
		ok = verifAnd(ok, n <= *cv.MaxItems)
	}
	if cv.UniqueItems {
		for i := range elems {
			for j := 0; j < i; j++ {
				ok = verifAnd(ok, verifNot(refTypedEqual(elems[i], elems[j])))
			}
		}
	}
	if items != nil {
		for _, e := range elems {
			if e == nil {
				continue // a nil value is not validated
			}
			ok = verifAnd(ok, refSimple(items.Type, items.Format, &items.CommonValidations, items.Items, e))
		}
	}
	return ok
}

func refTypedEqual(a, b interface{}) bool {
	switch x := a.(type) {
	case string:
		y, ok := b.(string)
		return ok && x == y
	case int64:
		y, ok := b.(int64)
		if !ok {
			return false
		}
		return x == y
	case uint16:
		y, ok := b.(uint16)
		if !ok {
			return false
		}
		return x == y
	case float64:
		y, ok := b.(float64)
		if !ok {
			return false
		}
		return x == y
	case []string:
		y, ok := b.([]string)
		if !ok || len(x) != len(y) {
			return false
		}
		for i := range x {
			if x[i] != y[i] {
				return false
			}
		}
		return true
	}
	return false
}

func genCV(typ string) spec.CommonValidations {
	cv := spec.CommonValidations{}
	switch typ {
	case "integer", "number":
		switch verifChoose(5) {
		case 1:
			cv.Maximum = ptrF(verifPickFloat(0, 1, 2))
			cv.ExclusiveMaximum = verifBool()
		case 2:
			cv.Minimum = ptrF(verifPickFloat(0, 1, 2))
			cv.ExclusiveMinimum = verifBool()
		case 3:
			cv.MultipleOf = ptrF(2)
		case 4:
			cv.Enum = []interface{}{verifPickFloat(1, 3), 1.5} // a fractional member: matches no integer-kind value
		}
	case "string":
		switch verifChoose(5) {
		case 1:
			cv.MinLength = ptrI(verifPickInt(1, 2))
		case 2:
			cv.MaxLength = ptrI(verifPickInt(1, 2))
		case 3:
			cv.Pattern = "^a"
		case 4:
			cv.Enum = []interface{}{"a", "ab"}
		}
	case "array":
		switch verifChoose(4) {
		case 1:
			cv.MinItems = ptrI(verifPickInt(1, 2))
		case 2:
			cv.MaxItems = ptrI(verifPickInt(0, 1))
		case 3:
			cv.UniqueItems = true
		}
	}
	return cv
}

func genItems(depth int) *spec.Items {
	it := &spec.Items{}
	if depth > 0 && verifBool() {
		it.Type = "array"
		it.CommonValidations = genCV("array")
		it.Items = genItems(depth - 1)
		return it
	}
	it.Type = []string{"string", "integer"}[verifChoose(2)]
	it.CommonValidations = genCV(it.Type)
	return it
}

func genTypedValue(typ string) interface{} {
	small := verifPickInt(0, 1, 2, 3)
	switch typ {
	case "integer":
		switch verifChoose(5) {
		case 0:
			return small
		case 1:
			return int32(small)
		case 2:
			return uint8(small)
		case 3:
			return "a"
		default:
			return true
		}
	case "number":
		switch verifChoose(5) {
		case 0:
			return float64(small)
		case 1:
			return float32(small)
		case 2:
			return small
		case 3:
			return float64(small) + 0.5
		default:
			if verifBool() {
				return uint16(small)
			}
			return "1"
		}
	case "string":
		switch verifChoose(5) {
		case 0:
			return ""
		case 1:
			return "a"
		case 2:
			return "ab"
		case 3:
			return "éé"
		default:
			if verifBool() {
				return []string{"a"} // a slice is not a string, with or without a format
			}
			return small
		}
	case "boolean":
		switch verifChoose(3) {
		case 0:
			return verifBool()
		case 1:
			return "true"
		default:
			return small
		}
	}
	return nil
}

func genTypedSlice(items *spec.Items) interface{} {
	if items != nil && items.Type != "array" && verifChoose(5) == 0 {
		// a generic slice holding a nil element (e.g. a decoded [null])
		return []interface{}{nil}
	}
	n := verifChoose(3)
	if items != nil && items.Type == "array" {
		out := make([][]string, 0, n)
		for i := 0; i < n; i++ {
			m := verifChoose(3)
			in := make([]string, 0, m)
			for j := 0; j < m; j++ {
				in = append(in, []string{"a", "ab", "b"}[verifChoose(3)])
			}
			out = append(out, in)
		}
		return out
	}
	if items != nil && items.Type == "integer" && verifBool() {
		if verifBool() {
			out := make([]uint16, 0, n)
			for i := 0; i < n; i++ {
				out = append(out, uint16(verifPickInt(0, 1, 2, 3)))
			}
			return out
		}
		out := make([]int64, 0, n)
		for i := 0; i < n; i++ {
			out = append(out, verifPickInt(0, 1, 2, 3))
		}
		return out
	}
	out := make([]string, 0, n)
	for i := 0; i < n; i++ {
		out = append(out, []string{"a", "ab", "b"}[verifChoose(3)])
	}
	return out
}

// kfC16EnumConvert: C16-KF-ENUM — the enum fall-back converts the data to the enum value's type
// (a number parameter with enum [3] accepts 3.5; an integer-kind value is compared after conversion)
func kfC16EnumFractional(cv *spec.CommonValidations, v interface{}) bool {
	if len(cv.Enum) == 0 {
		return false
	}
	f, isNum, isIntKind := numOf(v)
	return isNum && !isIntKind && f != float64(int64(f))
}

func HarnessC16Param() {
	typ := []string{"integer", "number", "string", "boolean", "array"}[verifChoose(5)]
	p := &spec.Parameter{}
	p.Name, p.In, p.Type = "q", "query", typ
	p.CommonValidations = genCV(typ)
	var v interface{}
	if typ == "array" {
		p.Items = genItems(1 + verifTier())
		if verifChoose(4) == 0 {
			v = "a"
		} else {
			v = genTypedSlice(p.Items)
		}
	} else {
		v = genTypedValue(typ)
	}
	if typ == "string" && verifBool() {
		p.Format = "date"
	}
	reg := &verifRegistry{}
	verifKF("C16-KF-ENUM", kfC16EnumFractional(&p.CommonValidations, v))
	want := refSimple(p.Type, p.Format, &p.CommonValidations, p.Items, v)
	got := NewParamValidator(p, reg).Validate(v)
	valid := got == nil || got.IsValid()
	verifObserve("valid", valid)
	verifAssert(valid == want, "param-validator-agrees-with-simple-schema")
	verifAssert(NewParamValidator(p, reg).Validate(nil) == nil, "nil-value-is-not-validated")
	verifReach("end")
}

func HarnessC16Header() {
	typ := []string{"integer", "number", "string", "boolean", "array"}[verifChoose(5)]
	h := &spec.Header{}
	h.Type = typ
	h.CommonValidations = genCV(typ)
	var v interface{}
	if typ == "array" {
		h.Items = genItems(0)
		v = genTypedSlice(h.Items)
	} else {
		v = genTypedValue(typ)
	}
	if typ == "string" && verifBool() {
		h.Format = "date"
	}
	reg := &verifRegistry{}
	if str, isStr := v.(string); isStr && str == "" {
		// don't-care cell: a header validator treats the empty string as a missing required value
		// (deliberate, validator.go stringValidator with Required=true); the statement is silent on it
		verifAssume(false)
	}
	verifKF("C16-KF-ENUM", kfC16EnumFractional(&h.CommonValidations, v))
	want := refSimple(h.Type, h.Format, &h.CommonValidations, h.Items, v)
	got := NewHeaderValidator("X-H", h, reg).Validate(v)
	valid := got == nil || got.IsValid()
	verifObserve("valid", valid)
	verifAssert(valid == want, "header-validator-agrees-with-simple-schema")
	verifAssert(NewHeaderValidator("X-H", h, reg).Validate(nil) == nil, "nil-value-is-not-validated")
	verifReach("end")
}

// HarnessC16ItemsFormat: a format declared on items is the one applied to the elements.
func HarnessC16ItemsFormat() {
	p := &spec.Parameter{}
	p.Name, p.In, p.Type = "q", "query", "array"
	it := &spec.Items{}
	it.Type = "string"
	rootFmt := verifBool()
	itemFmt := verifBool()
	if rootFmt {
		p.Format = "rootfmt"
	}
	if itemFmt {
		it.Format = "date"
	}
	p.Items = it
	v := []string{"x"}
	reg := &verifRegistry{}
	verifKF("C16-KF-ITEMS-FORMAT", itemFmt != rootFmt || itemFmt)
	want := refSimple(p.Type, p.Format, &p.CommonValidations, p.Items, v)
	got := NewParamValidator(p, reg).Validate(v)
	valid := got == nil || got.IsValid()
	verifAssert(valid == want, "items-format-is-the-one-applied")
	verifReach("end")
}

// genParamCase / genHeaderCase: one definition and one typed value (shared by C04 / C08 harnesses)
func genParamCase() (*spec.Parameter, interface{}) {
	typ := []string{"integer", "number", "string", "boolean", "array"}[verifChoose(5)]
	p := &spec.Parameter{}
	p.Name, p.In, p.Type = "q", "query", typ
	p.CommonValidations = genCV(typ)
	if typ == "array" {
		p.Items = genItems(0)
		return p, genTypedSlice(p.Items)
	}
	return p, genTypedValue(typ)
}

func genHeaderCase() (*spec.Header, interface{}) {
	typ := []string{"integer", "string", "array"}[verifChoose(3)]
	h := &spec.Header{}
	h.Type = typ
	h.CommonValidations = genCV(typ)
	if typ == "array" {
		h.Items = genItems(0)
		return h, genTypedSlice(h.Items)
	}
	return h, genTypedValue(typ)
}

// HarnessC04ParamHeader: recycling parameter / header validators (used once) in havoc pools vs fresh.
func HarnessC04ParamHeader() {
	reg := &verifRegistry{}
	var fresh, rec verifOutcome
	var res *Result
	if verifBool() {
		p, v := genParamCase()
		if verifChoose(6) == 0 {
			v = nil
		}
		fresh = outcomeOfResult(NewParamValidator(p, reg).Validate(v))
		verifHavocPools(true)
		res = NewParamValidator(p, reg, WithRecycleValidators(true)).Validate(v)
		rec = outcomeOfResult(res)
	} else {
		h, v := genHeaderCase()
		if verifChoose(6) == 0 {
			v = nil
		}
		fresh = outcomeOfResult(NewHeaderValidator("X-H", h, reg).Validate(v))
		verifHavocPools(true)
		res = NewHeaderValidator("X-H", h, reg, WithRecycleValidators(true)).Validate(v)
		rec = outcomeOfResult(res)
	}
	verifHavocPools(false)
	verifAssert(sameOutcome(rec, fresh), "recycled-simple-validator-outcome-equals-fresh")
	verifPoolInv(res)
	verifObserve("valid", fresh.valid)
	verifReach("end")
}

// HarnessC08ParamHeader: long-lived parameter / header validators are stateless.
func HarnessC08ParamHeader() {
	reg := &verifRegistry{}
	if verifBool() {
		p, v1 := genParamCase()
		pv := NewParamValidator(p, reg)
		verifFreeze(pv, "long-lived parameter validator")
		r1 := outcomeOfResult(pv.Validate(v1))
		verifUnfreeze()
		v2 := []interface{}{"ab", int64(3), []string{"a", "a"}}[verifChoose(3)]
		r2 := outcomeOfResult(pv.Validate(v2))
		r1b := outcomeOfResult(pv.Validate(v1))
		verifAssert(sameOutcome(r1, outcomeOfResult(NewParamValidator(p, reg).Validate(v1))), "first-use-equals-fresh")
		verifAssert(sameOutcome(r2, outcomeOfResult(NewParamValidator(p, reg).Validate(v2))), "second-use-equals-fresh")
		verifAssert(sameOutcome(r1b, r1), "repeat-equals-first")
	} else {
		h, v1 := genHeaderCase()
		hv := NewHeaderValidator("X-H", h, reg)
		verifFreeze(hv, "long-lived header validator")
		r1 := outcomeOfResult(hv.Validate(v1))
		verifUnfreeze()
		v2 := []interface{}{"ab", int64(3), []string{"a", "a"}}[verifChoose(3)]
		r2 := outcomeOfResult(hv.Validate(v2))
		r1b := outcomeOfResult(hv.Validate(v1))
		verifAssert(sameOutcome(r1, outcomeOfResult(NewHeaderValidator("X-H", h, reg).Validate(v1))), "first-use-equals-fresh")
		verifAssert(sameOutcome(r2, outcomeOfResult(NewHeaderValidator("X-H", h, reg).Validate(v2))), "second-use-equals-fresh")
		verifAssert(sameOutcome(r1b, r1), "repeat-equals-first")
	}
	verifReach("end")
}

// HarnessC16Formats: numeric formats delimit the range of the declared type: a value outside the
// range of int32 / uint32 / float is rejected, inside it is accepted (value fully symbolic).
func HarnessC16Formats() {
	p := &spec.Parameter{}
	p.Name, p.In = "q", "query"
	var v interface{}
	var want bool
	switch verifChoose(7) {
	case 5:
		p.Type, p.Format = "integer", "int32"
		x := verifUint32()
		v, want = x, x < 1<<31
	case 6:
		p.Type, p.Format = "integer", "int32"
		x := verifUint16()
		v, want = x, true
	case 0:
		p.Type, p.Format = "integer", "int32"
		x := verifInt64()
		v, want = x, verifAnd(-(1<<31) <= x, x < 1<<31)
	case 1:
		p.Type, p.Format = "integer", "int64"
		x := verifInt64()
		v, want = x, true
	case 2:
		p.Type, p.Format = "integer", "int32"
		x := verifUint64()
		verifAssume(x <= 1<<53)
		v, want = x, x < 1<<31
	case 3:
		p.Type, p.Format = "integer", "int32"
		x := verifInt32()
		v, want = x, true
	default:
		p.Type, p.Format = "number", "float"
		x := verifFloat64()
		verifAssume(x == x)
		verifAssume(verifAnd(-1.7976931348623157e308 <= x, x <= 1.7976931348623157e308)) // the statement is silent on infinities
		// don't-care band: finite values above MaxFloat32 that still round to it (up to 2^128 - 2^103)
		verifAssume(verifNot(verifOr(verifAnd(3.4028234663852886e38 < x, x <= 3.4028235677973366e38), verifAnd(-3.4028235677973366e38 <= x, x < -3.4028234663852886e38))))
		v, want = x, verifAnd(-3.4028234663852886e38 <= x, x <= 3.4028234663852886e38)
	}
	res := NewParamValidator(p, nil).Validate(v)
	valid := res == nil || res.IsValid()
	verifObserve("valid", valid)
	verifAssert(valid == want, "numeric-format-delimits-the-accepted-range")
	verifReach("end")
}
