//go:build verif

package validate

import (
	"encoding/json"
	"math"

	"github.com/go-openapi/spec"
)

// C13 — numeric verdicts depend on the number, not on the Go type that carries it.
//
// Oracles are the mathematical definitions written over the symbolic inputs. Bound of every
// harness in this file: |value| <= 2^53 and |bound| <= 2^53, bound not NaN; within it an integer
// value converts to float64 exactly, so the floating-point comparison of float64(value) with the
// bound *is* the comparison of the mathematical values.

const two53 = 9007199254740992.0

// verifNumOfKind returns a symbolic number carried by Go kind k (0..11), and its exact float64 value.
// Kinds: 0 int8 1 int16 2 int32 3 int64 4 int 5 uint8 6 uint16 7 uint32 8 uint64 9 uint 10 float32 11 float64
func verifNumOfKind(k int) (interface{}, float64) {
	switch k {
	case 0:
		v := verifInt8()
		return v, float64(v)
	case 1:
		v := verifInt16()
		return v, float64(v)
	case 2:
		v := verifInt32()
		return v, float64(v)
	case 3:
		v := verifInt64()
		verifAssume(verifAnd(-(1<<53) <= v, v <= 1<<53))
		return v, float64(v)
	case 4:
		v := verifInt()
		verifAssume(verifAnd(-(1<<53) <= v, v <= 1<<53))
		return v, float64(v)
	case 5:
		v := verifUint8()
		return v, float64(v)
	case 6:
		v := verifUint16()
		return v, float64(v)
	case 7:
		v := verifUint32()
		return v, float64(v)
	case 8:
		v := verifUint64()
		verifAssume(v <= 1<<53)
		return v, float64(v)
	case 9:
		v := verifUint()
		verifAssume(v <= 1<<53)
		return v, float64(v)
	case 10:
		v := verifFloat32()
		verifAssume(verifAnd(v == v, -two53 <= float64(v), float64(v) <= two53))
		return v, float64(v)
	default:
		v := verifFloat64()
		verifAssume(verifAnd(v == v, -two53 <= v, v <= two53))
		return v, v
	}
}

var kindNames = []string{"int8", "int16", "int32", "int64", "int", "uint8", "uint16", "uint32", "uint64", "uint", "float32", "float64"}

func verifBound() float64 {
	m := verifFloat64()
	verifAssume(verifAnd(m == m, -two53 <= m, m <= two53))
	return m
}

// known finding C13-KF1: an integer-kind value is compared with the *truncated* bound
func kfC13FractionalBoundIntKind(k int, m float64) bool {
	return verifAnd(k <= 9, m != float64(int64(m)))
}

// HarnessC13MaxNative: MaximumNativeType on every numeric kind agrees with exact comparison.
func HarnessC13MaxNative() {
	k := verifChoose(12)
	val, fv := verifNumOfKind(k)
	m := verifBound()
	excl := verifBool()
	verifKF("C13-KF1", kfC13FractionalBoundIntKind(k, m))
	got := MaximumNativeType("p", "body", val, m, excl) != nil
	want := verifOr(verifAnd(!excl, fv > m), verifAnd(excl, fv >= m))
	verifObserve("kind", kindNames[k])
	verifObserve("got", got)
	verifAssert(got == want, "max-native-exact")
	verifReach("end")
}

// HarnessC13MinNative: MinimumNativeType on every numeric kind agrees with exact comparison.
func HarnessC13MinNative() {
	k := verifChoose(12)
	val, fv := verifNumOfKind(k)
	m := verifBound()
	excl := verifBool()
	verifKF("C13-KF2", kfC13FractionalBoundIntKind(k, m))
	got := MinimumNativeType("p", "body", val, m, excl) != nil
	want := verifOr(verifAnd(!excl, fv < m), verifAnd(excl, fv <= m))
	verifObserve("kind", kindNames[k])
	verifObserve("got", got)
	verifAssert(got == want, "min-native-exact")
	verifReach("end")
}

// HarnessC13TypedHelpers: the typed Maximum*/Minimum* helpers are the textbook comparisons.
func HarnessC13TypedHelpers() {
	excl := verifBool()
	switch verifChoose(3) {
	case 0:
		d, m := verifInt64(), verifInt64()
		verifAssert((MaximumInt("p", "q", d, m, excl) != nil) == verifOr(verifAnd(!excl, d > m), verifAnd(excl, d >= m)), "maximum-int")
		verifAssert((MinimumInt("p", "q", d, m, excl) != nil) == verifOr(verifAnd(!excl, d < m), verifAnd(excl, d <= m)), "minimum-int")
	case 1:
		d, m := verifUint64(), verifUint64()
		verifAssert((MaximumUint("p", "q", d, m, excl) != nil) == verifOr(verifAnd(!excl, d > m), verifAnd(excl, d >= m)), "maximum-uint")
		verifAssert((MinimumUint("p", "q", d, m, excl) != nil) == verifOr(verifAnd(!excl, d < m), verifAnd(excl, d <= m)), "minimum-uint")
	default:
		d, m := verifFloat64(), verifFloat64()
		verifAssume(verifAnd(d == d, m == m))
		verifAssert((Maximum("p", "q", d, m, excl) != nil) == verifOr(verifAnd(!excl, d > m), verifAnd(excl, d >= m)), "maximum-float")
		verifAssert((Minimum("p", "q", d, m, excl) != nil) == verifOr(verifAnd(!excl, d < m), verifAnd(excl, d <= m)), "minimum-float")
	}
	verifReach("end")
}

// HarnessC13MultipleOfInt: integer multipleOf helpers agree with exact divisibility.
// Bound: factor drawn from a fixed list (division by a solver-chosen constant), |data| < 2^31.
func HarnessC13MultipleOfInt() {
	switch verifChoose(2) {
	case 0:
		d := verifInt64()
		f := verifPickInt(1, 2, 3, 7, 10, 16, 1000, 65536)
		verifAssume(verifAnd(-(1<<31) <= d, d <= 1<<31))
		got := MultipleOfInt("p", "q", d, f) != nil
		verifAssert(got == (d%f != 0), "multipleof-int")
		verifAssert(MultipleOfInt("p", "q", d, -f) != nil, "multipleof-int-nonpositive-factor-rejected")
		verifAssert(MultipleOfInt("p", "q", d, 0) != nil, "multipleof-int-zero-factor-rejected")
	default:
		d := verifUint64()
		f := uint64(verifPickInt(1, 2, 3, 7, 10, 16, 1000, 65536))
		verifAssume(d <= 1<<32)
		got := MultipleOfUint("p", "q", d, f) != nil
		verifAssert(got == (d%f != 0), "multipleof-uint")
		verifAssert(MultipleOfUint("p", "q", d, 0) != nil, "multipleof-uint-zero-factor-rejected")
	}
	verifReach("end")
}

// HarnessC13Validators: the same verdict through schema validation and through a parameter
// validator, for a value of every Go numeric kind (fully symbolic within the carrier, |x| <= 2^53)
// against picked bounds (integral and fractional), inclusive and exclusive.
func HarnessC13Validators() {
	k := verifChoose(12)
	val, fv := verifNumOfKind(k)
	m := verifPickFloat(-3, 0, 2, 2.5, 100)
	excl := verifBool()
	isMax := verifBool()
	var want bool // valid
	s := spec.Schema{}
	p := &spec.Parameter{}
	p.Name, p.In = "q", "query"
	if k <= 9 {
		p.Type = "integer"
	} else {
		p.Type = "number"
	}
	if isMax {
		s.Maximum, s.ExclusiveMaximum = &m, excl
		p.Maximum, p.ExclusiveMaximum = &m, excl
		want = verifOr(verifAnd(!excl, fv <= m), verifAnd(excl, fv < m))
	} else {
		s.Minimum, s.ExclusiveMinimum = &m, excl
		p.Minimum, p.ExclusiveMinimum = &m, excl
		want = verifOr(verifAnd(!excl, fv >= m), verifAnd(excl, fv > m))
	}
	verifObserve("kind", kindNames[k])
	gotSchema := NewSchemaValidator(&s, nil, "", nil).Validate(val).IsValid()
	verifAssert(gotSchema == want, "schema-validation-verdict-is-exact-for-every-kind")
	// a fractional bound is not representable in an integer-typed definition (the library reports
	// the definition itself): outside the quantifier for the typed path
	if !(k <= 9 && m != float64(int64(m))) {
		res := NewParamValidator(p, nil).Validate(val)
		gotParam := res == nil || res.IsValid()
		verifAssert(gotParam == want, "parameter-validation-verdict-is-exact-for-every-kind")
	}
	verifReach("end")
}

// HarnessC13MultipleOfValidators: multipleOf through schema validation for every integer kind
// (picked small values, so that every carrier holds them exactly) and integral / fractional factors.
func HarnessC13MultipleOfValidators() {
	k := verifChoose(10)
	x := verifPickInt(0, 3, 4, 6, 7, 100)
	var val interface{}
	switch k {
	case 0:
		val = int8(x)
	case 1:
		val = int16(x)
	case 2:
		val = int32(x)
	case 3:
		val = x
	case 4:
		val = int(x)
	case 5:
		val = uint8(x)
	case 6:
		val = uint16(x)
	case 7:
		val = uint32(x)
	case 8:
		val = uint64(x)
	default:
		val = uint(x)
	}
	f := verifPickFloat(1, 2, 3, 0.5, 1.5, -2, 1e19, 2e19)
	s := spec.Schema{}
	s.MultipleOf = &f
	got := NewSchemaValidator(&s, nil, "", nil).Validate(val).IsValid()
	q := float64(x) / f
	// a factor that is not positive is an error for every kind; beyond the integer ranges only 0 is a multiple
	want := verifAnd(f > 0, q == float64(int64(q)))
	verifObserve("kind", kindNames[k])
	verifAssert(got == want, "multipleof-verdict-is-exact-for-every-integer-kind")
	verifAssert((MultipleOfNativeType("p", "q", val, f) == nil) == want, "multipleof-native-helper-is-exact")
	verifReach("end")
}

// HarnessC13Float32: float32 carriers whose decimal spelling differs from their value (0.1, 0.7, 2.3 ...)
// against a bound equal to that value: the float32 is the number float64(x), not its shortest decimal.
func HarnessC13Float32() {
	vals := []float32{0.1, 0.7, 2.3, 0.001, 16777.215, 0.5}
	x := vals[verifChoose(len(vals))]
	exact := float64(x)
	bound := []float64{exact, math.Nextafter(exact, math.Inf(1)), math.Nextafter(exact, math.Inf(-1))}[verifChoose(3)]
	isMax, excl := verifBool(), verifBool()
	var want bool
	switch {
	case isMax && excl:
		want = exact < bound
	case isMax:
		want = exact <= bound
	case excl:
		want = exact > bound
	default:
		want = exact >= bound
	}
	var got bool
	s := spec.Schema{}
	p := spec.QueryParam("q").Typed("number", "")
	if isMax {
		got = MaximumNativeType("p", "q", x, bound, excl) == nil
		s.Maximum, s.ExclusiveMaximum = &bound, excl
		p.Maximum, p.ExclusiveMaximum = &bound, excl
	} else {
		got = MinimumNativeType("p", "q", x, bound, excl) == nil
		s.Minimum, s.ExclusiveMinimum = &bound, excl
		p.Minimum, p.ExclusiveMinimum = &bound, excl
	}
	verifAssert(got == want, "float32-carrier-compares-as-its-exact-value")
	verifAssert(NewSchemaValidator(&s, nil, "", nil).Validate(x).IsValid() == want, "float32-schema-verdict-is-exact")
	res := NewParamValidator(p, nil).Validate(x)
	verifAssert((res == nil || res.IsValid()) == want, "float32-parameter-verdict-is-exact")
	verifReach("end")
}

// HarnessC13HugeBounds: bounds beyond the range of the integer types (where a conversion of the
// bound to int64 / uint64 overflows): the verdict must still be the one of the mathematical values.
func HarnessC13HugeBounds() {
	bounds := []float64{1e30, -1e30, 9.3e18, -9.3e18, 1.85e19, 1e19}
	b := verifChoose(len(bounds))
	bound := bounds[b]
	isMax := verifBool()
	excl := verifBool()
	var val interface{}
	var below bool // value < bound (never equal: no value of these kinds equals one of the bounds... except where computed)
	var equal bool
	switch verifChoose(4) {
	case 0:
		v := verifInt64()
		val = v
		below = b == 0 || b == 2 || b == 4 || b == 5 // every int64 is below the positive bounds, above the negative ones
	case 1:
		v := verifInt8()
		val = v
		below = b == 0 || b == 2 || b == 4 || b == 5
	case 2:
		v := verifUint64()
		val = v
		switch b {
		case 0, 4:
			below = true
		case 1, 3:
			below = false
		case 2:
			below = v < 9300000000000000000
			equal = v == 9300000000000000000
		default:
			below = v < 10000000000000000000
			equal = v == 10000000000000000000
		}
	default:
		v := verifUint8()
		val = v
		below = b == 0 || b == 2 || b == 4 || b == 5
	}
	var want bool
	switch {
	case isMax && excl:
		want = below
	case isMax:
		want = verifOr(below, equal)
	case excl:
		want = verifAnd(verifNot(below), verifNot(equal))
	default:
		want = verifNot(below)
	}
	var got bool
	if isMax {
		got = MaximumNativeType("p", "q", val, bound, excl) == nil
	} else {
		got = MinimumNativeType("p", "q", val, bound, excl) == nil
	}
	verifObserve("bound", bound)
	verifAssert(got == want, "native-helper-is-exact-for-bounds-beyond-the-integer-range")
	s := spec.Schema{}
	if isMax {
		s.Maximum, s.ExclusiveMaximum = &bound, excl
	} else {
		s.Minimum, s.ExclusiveMinimum = &bound, excl
	}
	verifAssert(NewSchemaValidator(&s, nil, "", nil).Validate(val).IsValid() == want, "schema-verdict-is-exact-for-bounds-beyond-the-integer-range")
	verifReach("end")
}

// HarnessC13MultipleOfDecimal: multipleOf on decimal fractions with at most 6 fractional digits:
// the verdict must be the one of exact arithmetic on the decimal values (here: on the numbers scaled
// by 10^6), through the helper, schema validation and parameter validation.
func HarnessC13MultipleOfDecimal() {
	datas := []float64{0.29, 0.57, 4.35, 0.3, 1.1, 0.07, 19.99, 100.01, 0.000003, 7, 0.35, 4000000001, 1000000000.5, 0}
	dataScaled := []int64{290000, 570000, 4350000, 300000, 1100000, 70000, 19990000, 100010000, 3, 7000000, 350000, 4000000001000000, 1000000000500000, 0}
	factors := []float64{0.01, 0.1, 0.05, 0.000001, 2.5, 0.3, 0.07, 2, 1}
	factorScaled := []int64{10000, 100000, 50000, 1, 2500000, 300000, 70000, 2000000, 1000000}
	i, j := verifChoose(len(datas)), verifChoose(len(factors))
	x, f := datas[i], factors[j]
	if verifBool() {
		x = -x
	}
	want := dataScaled[i]%factorScaled[j] == 0
	verifObserve("x", x)
	verifObserve("f", f)
	verifAssert((MultipleOf("p", "q", x, f) == nil) == want, "multipleof-helper-is-exact-on-decimals")
	s := spec.Schema{}
	s.MultipleOf = &f
	verifAssert(NewSchemaValidator(&s, nil, "", nil).Validate(x).IsValid() == want, "multipleof-schema-verdict-is-exact-on-decimals")
	p := spec.QueryParam("q").Typed("number", "")
	p.MultipleOf = &f
	res := NewParamValidator(p, nil).Validate(x)
	verifAssert((res == nil || res.IsValid()) == want, "multipleof-parameter-verdict-is-exact-on-decimals")
	verifReach("end")
}

// HarnessC13JSONNumber: json.Number carriers give the verdict of the float64 carrying the same number.
// Integer literals and fractional literals are picked values (finite-domain).
func HarnessC13JSONNumber() {
	var jn json.Number
	var fv float64
	integral := verifBool()
	if integral {
		// picked values (the tolerance-based integer test on the float64 side makes fully symbolic
		// values cost minutes); the end points ±2^53 are a don't-care cell (see C01)
		x := verifPickInt(-9007199254740991, -3, 0, 2, 3, 100, 9007199254740991)
		jn, fv = verifJSONNumberInt(x), float64(x)
	} else {
		f := verifPickFloat(-1.5, 0.5, 2.5, 3.0) // 3.0 is the literal "3.0": integral value, fractional literal
		jn, fv = verifJSONNumberFloat(f), f
	}
	s := spec.Schema{}
	switch verifChoose(3) {
	case 1:
		s.Type = spec.StringOrArray{"number"}
	case 2:
		s.Type = spec.StringOrArray{"integer"}
	}
	m := verifPickFloat(-3, 0, 2, 2.5)
	excl := verifBool()
	s.Maximum, s.ExclusiveMaximum = &m, excl
	verifKF("C13-KF-JSONNUMBER-UNTYPED", len(s.Type) == 0)
	verifKF("C13-KF-JSONNUMBER-INTEGRAL-FRACTION", verifAnd(!integral, len(s.Type) > 0 && s.Type[0] == "integer", fv == float64(int64(fv))))
	asNumber := NewSchemaValidator(&s, nil, "", nil).Validate(jn).IsValid()
	asFloat := NewSchemaValidator(&s, nil, "", nil).Validate(fv).IsValid()
	verifObserve("asFloat", asFloat)
	verifAssert(asNumber == asFloat, "json-number-verdict-equals-float64-verdict")
	verifReach("end")
}

// HarnessC13JSONNumberWide: integer literals beyond 2^53 carried as json.Number give the verdict of the
// int64 carrying the same number (both carriers are exact; float64 is not), for type number, integer
// and none.
func HarnessC13JSONNumberWide() {
	x := verifPickInt(9007199254740993, -9007199254740993, 9007199254740992, 4611686018427387905)
	s := spec.Schema{}
	switch verifChoose(3) {
	case 1:
		s.Type = spec.StringOrArray{"number"}
	case 2:
		s.Type = spec.StringOrArray{"integer"}
	}
	switch verifChoose(3) {
	case 0:
		m := verifPickFloat(9007199254740992, -9007199254740992)
		s.Maximum, s.ExclusiveMaximum = &m, verifBool()
	case 1:
		m := verifPickFloat(9007199254740992, -9007199254740992)
		s.Minimum, s.ExclusiveMinimum = &m, verifBool()
	default:
		f := 2.0
		s.MultipleOf = &f
	}
	asNumber := NewSchemaValidator(&s, nil, "", nil).Validate(verifJSONNumberInt(x)).IsValid()
	asInt := NewSchemaValidator(&s, nil, "", nil).Validate(x).IsValid()
	verifObserve("asInt", asInt)
	verifAssert(asNumber == asInt, "json-number-verdict-equals-int64-verdict")
	verifReach("end")
}
