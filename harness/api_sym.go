//go:build verif && !verifnative

package validate

// Symbolic side of the harness API: body-less declarations that the engine (gosx) intercepts.
// The native twin (api_native.go, tag verifnative) reads the solver's model so that the very
// same harness runs under the ordinary compiler for witness and counterexample replay.

func verifBool() bool
func verifInt8() int8
func verifInt16() int16
func verifInt32() int32
func verifInt64() int64
func verifInt() int
func verifUint8() uint8
func verifUint16() uint16
func verifUint32() uint32
func verifUint64() uint64
func verifUint() uint
func verifFloat32() float32
func verifFloat64() float64
func verifChoose(n int) int
func verifTier() int // 0 quick, 1 thorough
func verifPickFloat(vals ...float64) float64
func verifPickInt(vals ...int64) int64
func verifAssume(b bool)
func verifAssert(b bool, label string)
func verifReach(label string)
func verifObserve(name string, v interface{})

// verifKF declares the input region of a known finding (known_findings.json): while the finding
// is open the main pass assumes the complement and a second pass assumes the region and expects
// the violation to reproduce; for an unlisted or fixed id it is a no-op.
func verifKF(id string, region bool)

// branch-free connectives for oracles
func verifAnd(bs ...bool) bool
func verifOr(bs ...bool) bool
func verifNot(b bool) bool
func verifImplies(a, b bool) bool
func verifIff(a, b bool) bool
func verifIteF(c bool, a, b float64) float64
func verifIteI(c bool, a, b int64) int64

// strings
func verifAbsStr(name string) string
func verifBytesStr(maxLen int) string
func verifFmtOK(format, s string) bool
func verifKnownFmt(format string) bool
func verifMatches(pattern, s string) bool
func verifRuneCount(s string) int64
func verifFoldEq(a, b string) bool
func verifChecking(property string) bool
func verifSameSet(a, b []string) bool
func verifSubset(a, b []string) bool
func verifStrEq(a, b string) bool
func verifNoDup(a []string) bool

// environment models and monitors
func verifHavocPools(on bool)
func verifPoolInv(roots ...interface{})
func verifPooledCount() int
func verifPermMaps(on bool)
func verifFreeze(x interface{}, label string)
func verifUnfreeze()
func verifGo(f func()) // runs f as a goroutine (engine: a scheduled thread)
func verifJoin()       // waits for every goroutine started with verifGo
