//go:build verif

package post

// C18 — applying defaults fills exactly the absent members that have a default.
// C19 — pruning removes exactly the members no schema describes.
// Differential against small reference traversals; validity of instances is assumed via refValid.

import (
	"github.com/go-openapi/spec"
	"github.com/go-openapi/validate"
)

func ptrF(f float64) *float64 { return &f }

func numSchema(def interface{}) spec.Schema {
	s := spec.Schema{}
	s.Type = spec.StringOrArray{"number"}
	s.Default = def
	return s
}

func objWith(props map[string]spec.Schema) spec.Schema {
	s := spec.Schema{}
	s.Properties = props
	return s
}

func enumSchema(v float64) spec.Schema {
	s := spec.Schema{}
	s.Enum = []interface{}{v}
	return s
}

// applicable defaults for member key of obj under schema s (draft-4 applicability; anyOf: the first
// valid alternative is "the selected one"; oneOf: the unique valid one)
func refDefaults(s *spec.Schema, obj map[string]interface{}, key string) []interface{} {
	var out []interface{}
	if ps, ok := s.Properties[key]; ok {
		out = append(out, refOwnDefaults(&ps)...)
	}
	for i := range s.AllOf {
		out = append(out, refDefaults(&s.AllOf[i], obj, key)...)
	}
	for i := range s.AnyOf {
		if refValid(&s.AnyOf[i], obj) {
			out = append(out, refDefaults(&s.AnyOf[i], obj, key)...)
			break
		}
	}
	for i := range s.OneOf {
		if refValid(&s.OneOf[i], obj) {
			out = append(out, refDefaults(&s.OneOf[i], obj, key)...)
		}
	}
	return out
}

// refOwnDefaults: the defaults a schema declares for the value it describes: its own, and those of
// its allOf members (which all apply to that same value)
func refOwnDefaults(s *spec.Schema) []interface{} {
	var out []interface{}
	if s.Default != nil {
		out = append(out, s.Default)
	}
	for i := range s.AllOf {
		out = append(out, refOwnDefaults(&s.AllOf[i])...)
	}
	return out
}

func copyObj(o map[string]interface{}) map[string]interface{} {
	c := map[string]interface{}{}
	for k, v := range o {
		c[k] = v
	}
	return c
}

// checkDefaultsAt compares one object after ApplyDefaults with the reference.
func checkDefaultsAt(s *spec.Schema, before, after map[string]interface{}, keys []string) {
	for _, k := range keys {
		old, was := before[k]
		now, is := after[k]
		if was {
			verifAssert(is && refJSONEqual(old, now), "present-member-keeps-its-value")
			continue
		}
		ds := refDefaults(s, before, k)
		if len(ds) == 0 {
			verifAssert(!is, "no-member-appears-without-a-default")
			continue
		}
		verifAssert(is, "absent-member-with-applicable-default-is-filled")
		if is {
			okv := false
			for _, d := range ds {
				okv = verifOr(okv, refJSONEqual(d, now))
			}
			verifAssert(okv, "filled-value-is-an-applicable-default")
		}
	}
	for k := range after {
		known := false
		for _, kk := range keys {
			if kk == k {
				known = true
			}
		}
		verifAssert(known, "no-other-member-appears")
	}
}

func HarnessC18Defaults() {
	s := spec.Schema{}
	obj := map[string]interface{}{}
	keys := []string{"a", "b", "k"}
	switch verifChoose(9) {
	case 8: // the default of a member is declared by an allOf member of its property schema
		viaAllOf := spec.Schema{}
		viaAllOf.AllOf = []spec.Schema{numSchema(10.0)}
		s = objWith(map[string]spec.Schema{"a": viaAllOf, "b": numSchema(20.0)})
	case 5: // properties next to oneOf: the matching alternative is the first or the second
		s = objWith(map[string]spec.Schema{"b": numSchema(20.0)})
		a1 := objWith(map[string]spec.Schema{"k": enumSchema(1), "a": numSchema(10.0)})
		a1.Required = []string{"k"}
		a2 := objWith(map[string]spec.Schema{"k": enumSchema(2), "a": numSchema(11.0)})
		a2.Required = []string{"k"}
		s.OneOf = []spec.Schema{a1, a2}
	case 6: // allOf next to oneOf and anyOf
		a1 := objWith(map[string]spec.Schema{"k": enumSchema(1)})
		a1.Required = []string{"k"}
		a2 := objWith(map[string]spec.Schema{"k": enumSchema(2)})
		a2.Required = []string{"k"}
		a3 := objWith(map[string]spec.Schema{"k": enumSchema(3)})
		s.OneOf = []spec.Schema{a1, a2, a3}
		s.AnyOf = []spec.Schema{a2, a1}
		s.AllOf = []spec.Schema{objWith(map[string]spec.Schema{"a": numSchema(10.0)}), objWith(map[string]spec.Schema{"b": numSchema(20.0)})}
	case 7: // a nested object below the composed schema: defaults after a oneOf has matched early
		in := objWith(map[string]spec.Schema{"b": numSchema(20.0)})
		a1 := objWith(map[string]spec.Schema{"k": enumSchema(1)})
		a1.Required = []string{"k"}
		a2 := objWith(map[string]spec.Schema{"k": enumSchema(2)})
		a2.Required = []string{"k"}
		s = objWith(map[string]spec.Schema{"a": numSchema(10.0), "z": in})
		s.OneOf = []spec.Schema{a1, a2}
	case 0: // plain properties; n has a default and no type, so that null is a valid value for it
		n := spec.Schema{}
		n.Default = 7.0
		// defaults that are the zero value of their kind are defaults like the others
		zf, zb, zs := spec.Schema{}, spec.Schema{}, spec.Schema{}
		zf.Default, zb.Default, zs.Default = 0.0, false, ""
		s = objWith(map[string]spec.Schema{"a": numSchema(10.0), "b": numSchema(20.0), "k": numSchema(nil), "n": n, "zf": zf, "zb": zb, "zs": zs})
		keys = append(keys, "n", "zf", "zb", "zs")
		if verifBool() {
			obj["n"] = nil // present with the value null: must be kept
		}
	case 1: // allOf: each member contributes defaults
		s.AllOf = []spec.Schema{objWith(map[string]spec.Schema{"a": numSchema(10.0)}), objWith(map[string]spec.Schema{"b": numSchema(20.0), "a": numSchema(11.0)})}
	case 2: // anyOf selected by member k
		a1 := objWith(map[string]spec.Schema{"k": enumSchema(1), "a": numSchema(10.0)})
		a1.Required = []string{"k"}
		a2 := objWith(map[string]spec.Schema{"k": enumSchema(2), "a": numSchema(11.0), "b": numSchema(20.0)})
		a2.Required = []string{"k"}
		s.AnyOf = []spec.Schema{a1, a2}
	case 3: // oneOf selected by member k
		a1 := objWith(map[string]spec.Schema{"k": enumSchema(1), "a": numSchema(10.0)})
		a1.Required = []string{"k"}
		a2 := objWith(map[string]spec.Schema{"k": enumSchema(2), "b": numSchema(20.0)})
		a2.Required = []string{"k"}
		s.OneOf = []spec.Schema{a1, a2}
	default: // properties next to allOf
		s = objWith(map[string]spec.Schema{"a": numSchema(10.0)})
		s.AllOf = []spec.Schema{objWith(map[string]spec.Schema{"b": numSchema(20.0)})}
	}
	if verifTier() > 0 && verifBool() { // thorough: a structured default next to the numeric ones
		sd := spec.Schema{}
		sd.Default = map[string]interface{}{"x": []interface{}{1.0, "s"}}
		if s.Properties == nil {
			s.Properties = map[string]spec.Schema{}
		}
		s.Properties["sd"] = sd
		keys = append(keys, "sd")
	}
	if verifBool() {
		obj["a"] = verifPickFloat(1, 10)
	}
	if verifBool() {
		obj["b"] = 2.0
	}
	if verifBool() {
		obj["k"] = verifPickFloat(1, 2, 3)
	}
	verifAssume(refValid(&s, obj))
	before := copyObj(obj)
	res := validate.NewSchemaValidator(&s, nil, "", nil).Validate(obj)
	verifAssume(res.IsValid()) // agreement of verdicts is C01's subject
	ApplyDefaults(res)
	checkDefaultsAt(&s, before, obj, keys)
	verifObserve("a", obj["a"])
	verifReach("end")
}

// HarnessC18Nested: defaults inside nested objects and array elements present in the data
func HarnessC18Nested() {
	inner := objWith(map[string]spec.Schema{"a": numSchema(10.0), "b": numSchema(nil)})
	s := spec.Schema{}
	el := map[string]interface{}{}
	if verifBool() {
		el["a"] = 1.0
	}
	if verifBool() {
		el["b"] = 2.0
	}
	before := copyObj(el)
	var data interface{}
	want := &inner
	keys := []string{"a", "b"}
	switch verifChoose(8) {
	case 6: // a member that is a declared property and also matches a pattern property: both offer defaults for its content
		pin := objWith(map[string]spec.Schema{"z": numSchema(30.0)})
		s = objWith(map[string]spec.Schema{"meta": inner})
		s.PatternProperties = map[string]spec.Schema{"^m": pin}
		data = map[string]interface{}{"meta": el}
		want = &spec.Schema{}
		want.AllOf = []spec.Schema{inner, pin}
		keys = append(keys, "z")
	case 7: // a member matched by a pattern property only
		s.PatternProperties = map[string]spec.Schema{"^m": inner}
		data = map[string]interface{}{"mx": el}
	case 0:
		s = objWith(map[string]spec.Schema{"o": inner})
		data = map[string]interface{}{"o": el}
	case 1:
		s.Items = &spec.SchemaOrArray{Schema: &inner}
		data = []interface{}{map[string]interface{}{"a": 5.0}, el}
	case 2:
		arr := spec.Schema{}
		arr.Items = &spec.SchemaOrArray{Schemas: []spec.Schema{inner}}
		s = objWith(map[string]spec.Schema{"t": arr})
		data = map[string]interface{}{"t": []interface{}{el}}
	case 3: // an array that is itself an element of an array
		row := spec.Schema{}
		row.Items = &spec.SchemaOrArray{Schema: &inner}
		s.Items = &spec.SchemaOrArray{Schema: &row}
		data = []interface{}{[]interface{}{el}}
	case 4: // object reached through schema-valued additionalProperties
		s.AdditionalProperties = &spec.SchemaOrBool{Allows: true, Schema: &inner}
		data = map[string]interface{}{"any": el}
	default: // object reached through the second allOf member
		s.AllOf = []spec.Schema{{}, objWith(map[string]spec.Schema{"o": inner})}
		data = map[string]interface{}{"o": el}
	}
	if verifTier() > 0 && verifBool() { // thorough: the whole structure once more below a property or an array
		outer := spec.Schema{}
		if verifBool() {
			outer = objWith(map[string]spec.Schema{"w": s})
			data = map[string]interface{}{"w": data}
		} else {
			wrapped := s // a copy: &s would make the schema refer to itself once s is overwritten below
			outer.Items = &spec.SchemaOrArray{Schema: &wrapped}
			data = []interface{}{data}
		}
		s = outer
	}
	res := validate.NewSchemaValidator(&s, nil, "", nil).Validate(data)
	verifAssume(res.IsValid())
	ApplyDefaults(res)
	checkDefaultsAt(want, before, el, keys)
	verifReach("end")
}

// ---------- C19 ----------

// refDescribed: is member key of obj described by an applicable schema?
func refDescribed(s *spec.Schema, obj map[string]interface{}, key string) bool {
	if _, ok := s.Properties[key]; ok {
		return true
	}
	for pat := range s.PatternProperties {
		if verifMatches(pat, key) {
			return true
		}
	}
	if s.AdditionalProperties != nil && s.AdditionalProperties.Schema != nil {
		// additionalProperties describes the members that properties / patternProperties do not
		return true
	}
	for i := range s.AllOf {
		if refDescribed(&s.AllOf[i], obj, key) {
			return true
		}
	}
	for i := range s.AnyOf {
		if refValid(&s.AnyOf[i], obj) {
			return refDescribed(&s.AnyOf[i], obj, key)
		}
	}
	for i := range s.OneOf {
		if refValid(&s.OneOf[i], obj) && refDescribed(&s.OneOf[i], obj, key) {
			return true
		}
	}
	return false
}

func checkPrunedAt(s *spec.Schema, before, after map[string]interface{}, keys []string) {
	for _, k := range keys {
		old, was := before[k]
		now, is := after[k]
		if !was {
			verifAssert(!is, "prune-adds-nothing")
			continue
		}
		if refDescribed(s, before, k) {
			verifAssert(is, "described-member-remains")
			if is {
				if _, nested := old.(map[string]interface{}); !nested {
					verifAssert(refJSONEqual(old, now), "remaining-member-unchanged")
				}
			}
		} else {
			verifAssert(!is, "undescribed-member-is-removed")
		}
	}
}

func HarnessC19Prune() {
	s := spec.Schema{}
	keys := []string{"a", "ab", "b", "c"}
	composed := false
	switch verifChoose(6) {
	case 0:
		s = objWith(map[string]spec.Schema{"a": numSchema(nil)})
	case 1:
		s = objWith(map[string]spec.Schema{"a": numSchema(nil)})
		s.PatternProperties = map[string]spec.Schema{"^a": {}}
	case 2:
		s = objWith(map[string]spec.Schema{"a": numSchema(nil)})
		l := spec.Schema{}
		s.AdditionalProperties = &spec.SchemaOrBool{Allows: true, Schema: &l}
	case 3:
		s.AllOf = []spec.Schema{objWith(map[string]spec.Schema{"a": numSchema(nil)}), objWith(map[string]spec.Schema{"b": {}})}
	case 4:
		a1 := objWith(map[string]spec.Schema{"c": enumSchema(1), "a": numSchema(nil)})
		a1.Required = []string{"c"}
		a2 := objWith(map[string]spec.Schema{"c": enumSchema(2), "b": {}})
		a2.Required = []string{"c"}
		s.AnyOf = []spec.Schema{a1, a2}
		composed = true
	default:
		s = objWith(map[string]spec.Schema{"a": numSchema(nil)})
		s.AdditionalProperties = &spec.SchemaOrBool{Allows: true}
	}
	obj := map[string]interface{}{}
	if s.AdditionalProperties != nil && s.AdditionalProperties.Schema != nil && verifBool() {
		// members called id / $schema are members like the others for a schema-valued additionalProperties
		obj["id"] = 1.0
		obj["$schema"] = "x"
		keys = append(keys, "id", "$schema")
	}
	if s.Properties != nil && verifBool() {
		// a described member whose value is null (its schema has no type, so null is valid): it stays
		s.Properties["n"] = spec.Schema{}
		obj["n"] = nil
		keys = append(keys, "n")
	}
	if verifBool() {
		obj["a"] = 1.0
	}
	if verifBool() {
		obj["ab"] = "x"
	}
	if verifBool() {
		obj["b"] = 2.0
	}
	if verifBool() {
		obj["c"] = verifPickFloat(1, 2)
	}
	verifAssume(refValid(&s, obj))
	before := copyObj(obj)
	res := validate.NewSchemaValidator(&s, nil, "", nil).Validate(obj)
	verifAssume(res.IsValid())
	Prune(res)
	checkPrunedAt(&s, before, obj, keys)
	if !composed {
		// idempotence: validate + prune again removes nothing more
		again := copyObj(obj)
		res2 := validate.NewSchemaValidator(&s, nil, "", nil).Validate(obj)
		if res2.IsValid() {
			Prune(res2)
			for _, k := range keys {
				_, was := again[k]
				_, is := obj[k]
				verifAssert(was == is, "pruning-is-idempotent")
			}
		}
	}
	verifReach("end")
}

// HarnessC19Nested: pruning inside nested objects and array elements (items and tuple items)
func HarnessC19Nested() {
	inner := objWith(map[string]spec.Schema{"a": numSchema(nil), "n": {}})
	s := spec.Schema{}
	el := map[string]interface{}{}
	if verifBool() {
		el["a"] = 1.0
	}
	if verifBool() {
		el["z"] = 2.0
	}
	if verifBool() {
		el["n"] = nil // described, null-valued: stays
	}
	before := copyObj(el)
	var data interface{}
	want := &inner
	switch verifChoose(8) {
	case 6: // a member that is a declared property and also matches a pattern property: both schemas describe its content
		pin := objWith(map[string]spec.Schema{"z": numSchema(nil)})
		s = objWith(map[string]spec.Schema{"meta": inner})
		s.PatternProperties = map[string]spec.Schema{"^m": pin}
		data = map[string]interface{}{"meta": el, "junk": 1.0}
		want = &spec.Schema{}
		want.AllOf = []spec.Schema{inner, pin}
	case 7: // a member described by a pattern property only
		s.PatternProperties = map[string]spec.Schema{"^m": inner}
		data = map[string]interface{}{"mx": el, "junk": 1.0}
	case 0:
		s = objWith(map[string]spec.Schema{"o": inner})
		data = map[string]interface{}{"o": el, "junk": 1.0}
	case 1:
		s.Items = &spec.SchemaOrArray{Schema: &inner}
		data = []interface{}{map[string]interface{}{"z": 1.0}, el}
	case 2:
		arr := spec.Schema{}
		arr.Items = &spec.SchemaOrArray{Schemas: []spec.Schema{inner}}
		s = objWith(map[string]spec.Schema{"t": arr})
		data = map[string]interface{}{"t": []interface{}{el}}
	case 3: // an array that is itself an element of an array
		row := spec.Schema{}
		row.Items = &spec.SchemaOrArray{Schema: &inner}
		s.Items = &spec.SchemaOrArray{Schema: &row}
		data = []interface{}{[]interface{}{el}}
	case 4: // object reached through schema-valued additionalProperties
		s.AdditionalProperties = &spec.SchemaOrBool{Allows: true, Schema: &inner}
		data = map[string]interface{}{"any": el}
	default: // object reached through the second allOf member
		s.AllOf = []spec.Schema{{}, objWith(map[string]spec.Schema{"o": inner})}
		data = map[string]interface{}{"o": el}
	}
	if verifTier() > 0 && verifBool() { // thorough: the whole structure once more below a property or an array
		outer := spec.Schema{}
		if verifBool() {
			outer = objWith(map[string]spec.Schema{"w": s})
			data = map[string]interface{}{"w": data}
		} else {
			wrapped := s // a copy: &s would make the schema refer to itself once s is overwritten below
			outer.Items = &spec.SchemaOrArray{Schema: &wrapped}
			data = []interface{}{data}
		}
		s = outer
	}
	res := validate.NewSchemaValidator(&s, nil, "", nil).Validate(data)
	verifAssume(res.IsValid())
	Prune(res)
	checkPrunedAt(want, before, el, []string{"a", "z", "n"})
	if top, ok := data.(map[string]interface{}); ok {
		if w, wrapped := top["w"].(map[string]interface{}); wrapped {
			top = w
		}
		_, junk := top["junk"]
		verifAssert(!junk, "undescribed-member-is-removed")
	}
	verifReach("end")
}
