//go:build verif

package validate

// C01 — schema validation verdicts agree with JSON Schema draft 4; one-shot == validator object.
// One harness per keyword family; each draws a schema and an instance from declared finite
// ranges (structure) with symbolic numbers / booleans, runs the real validators and compares
// with refValid (ref_draft4.go).

import (
	"encoding/json"

	"github.com/go-openapi/spec"
)

// symNum: a fully symbolic JSON number (float64), finite, |x| <= 2^53-1 (the JSON safe-integer
// range; whether "within ±2^53" includes the end points is left open by the statement, so the
// end points themselves are a don't-care cell).
const maxSafe = 9007199254740991.0

func symNum() float64 {
	f := verifFloat64()
	verifAssume(verifAnd(f == f, -maxSafe <= f, f <= maxSafe))
	return f
}

// schemaHasApplicators: anything beyond type/enum (what the nil-instance early exit skips)
func schemaHasApplicators(s *spec.Schema) bool {
	return len(s.AllOf) > 0 || len(s.AnyOf) > 0 || len(s.OneOf) > 0 || s.Not != nil
}

func enumHasNull(s *spec.Schema) bool {
	for _, e := range s.Enum {
		if e == nil {
			return true
		}
	}
	return false
}

// checkC01 holds the deciding assertions for one (schema, instance) pair.
func checkC01(s *spec.Schema, d interface{}) {
	reg := &verifRegistry{}
	// known findings (regions are predicates over the harness inputs)
	verifKF("C01-KF-NULL-APPLICATORS", d == nil && schemaHasApplicators(s))
	verifKF("C01-KF-NULL-ENUM", d == nil && enumHasNull(s))
	want := refValid(s, d)
	obj := runFresh(s, d, reg)
	verifObserve("valid", obj.valid)
	one := AgainstSchema(s, d, reg) == nil
	if verifChecking("C01") { // under C06 these families are run for termination and panic-freedom only
		verifAssert(obj.valid == want, "impl-agrees-with-draft4")
		verifAssert(one == obj.valid, "oneshot-agrees-with-validator-object")
	}
	verifReach("end")
}

// F1: type x instance kind (number fully symbolic: integer vs non-integral vs near-integral)
func HarnessC01Type() {
	s := spec.Schema{}
	switch verifChoose(3) {
	case 0:
		s.Type = spec.StringOrArray{draft4Types[verifChoose(7)]}
	case 1:
		s.Type = spec.StringOrArray{draft4Types[verifChoose(7)], draft4Types[verifChoose(7)]}
	default: // nullable is a Swagger extension: not in the draft-4 vocabulary, left off
		s.Type = spec.StringOrArray{draft4Types[verifChoose(7)]}
		s.Enum = []interface{}{genScalar()}
	}
	var d interface{}
	switch verifChoose(7) {
	case 0:
		d = nil
	case 1:
		d = verifBool()
	case 2:
		f := symNum()
		d = f
	case 3:
		d = genStr()
	case 4:
		d = []interface{}{}
	case 5:
		d = map[string]interface{}{}
	default:
		d = []interface{}{genNum()}
	}
	checkC01(&s, d)
}

// F2: numeric keywords with fully symbolic bounds and instance.
// quick: type absent / number with both bounds, type integer without bounds;
// thorough: type integer with bounds as well (the tolerance-based integer test makes every
// query carry an fp.div: ~2 s per query).
func HarnessC01Numeric() {
	s := spec.Schema{}
	k := verifChoose(3)
	switch k {
	case 1:
		s.Type = spec.StringOrArray{"number"}
	case 2:
		s.Type = spec.StringOrArray{"integer"}
	}
	if (k != 2 || verifTier() > 0) && verifBool() {
		s.Maximum = ptrF(symNum())
		s.ExclusiveMaximum = verifBool()
	}
	if (k != 2 || verifTier() > 0) && verifBool() {
		s.Minimum = ptrF(symNum())
		s.ExclusiveMinimum = verifBool()
	}
	f := symNum()
	checkC01(&s, f)
}

// F2b: multipleOf and numeric enum on finite-domain numbers
func HarnessC01MultipleOfEnum() {
	s := spec.Schema{}
	switch verifChoose(4) {
	case 3: // type integer (or a list holding it) next to integral and non-integral bounds / factors
		if verifBool() {
			s.Type = spec.StringOrArray{"integer"}
		} else {
			s.Type = spec.StringOrArray{"integer", "string"}
		}
		switch verifChoose(3) {
		case 0:
			s.Maximum = ptrF(verifPickFloat(2, 2.5, 10.5))
			s.ExclusiveMaximum = verifBool()
		case 1:
			s.Minimum = ptrF(verifPickFloat(-0.5, 0, 1.5))
			s.ExclusiveMinimum = verifBool()
		default:
			s.MultipleOf = ptrF(verifPickFloat(0.5, 1.5, 2))
		}
	case 0:
		s.MultipleOf = ptrF(verifPickFloat(0.5, 1, 2, 3))
	case 1:
		s.Enum = []interface{}{genNum()}
	default:
		s.Enum = []interface{}{genNum(), genScalar()}
		s.MultipleOf = ptrF(verifPickFloat(0.5, 1, 2))
	}
	var d interface{}
	if verifChoose(4) == 0 {
		d = genScalar()
	} else {
		d = verifPickFloat(-3, -1, 0, 0.5, 1, 1.5, 2, 3, 4, 6)
	}
	checkC01(&s, d)
}

// F3: string keywords: min/maxLength in code points, pattern, format through the registry
func HarnessC01String() {
	s := spec.Schema{}
	switch verifChoose(4) {
	case 1:
		s.Type = spec.StringOrArray{"string"}
	case 2: // a type that a string instance does not have: a format next to it must not excuse the mismatch
		s.Type = spec.StringOrArray{[]string{"boolean", "array", "object", "null"}[verifChoose(4)]}
	case 3:
		s.Type = spec.StringOrArray{"string", "null"}
	}
	if verifBool() {
		s.MinLength = ptrI(verifPickInt(0, 1, 2, 3))
	}
	if verifBool() {
		s.MaxLength = ptrI(verifPickInt(0, 1, 2, 3))
	}
	switch verifChoose(3) {
	case 1:
		s.Pattern = "^a"
	case 2:
		s.Pattern = "b$"
	}
	if len(s.Type) > 0 && verifBool() { // format only next to an explicit type (quantifier of C01)
		s.Format = "date"
	}
	var d interface{}
	if verifChoose(5) == 0 {
		d = genScalar()
	} else {
		d = []string{"", "a", "ab", "é€", "aé€b"}[verifChoose(5)]
	}
	checkC01(&s, d)
}

// F4: arrays: items (single / tuple), additionalItems, min/maxItems, uniqueItems.
// quick: tuples of <= 2 schemas, instances of <= 3 elements drawn from {number pick, "a"};
// thorough: tuples <= 3, instances <= 4 elements drawn from {number pick, "a", null}, type keyword free.
func HarnessC01Array() {
	t := verifTier()
	s := spec.Schema{}
	if t > 0 && verifBool() {
		s.Type = spec.StringOrArray{"array"}
	}
	switch verifChoose(3 + t) {
	case 0:
		s.Type = spec.StringOrArray{"array"}
	case 1:
		l := genLeafSmall()
		s.Items = &spec.SchemaOrArray{Schema: &l}
	case 2:
		// short tuples
		if verifBool() {
			s.Items = &spec.SchemaOrArray{Schemas: []spec.Schema{genLeafSmall()}}
		} else {
			a, b := genLeafSmall(), genLeafSmall()
			s.Items = &spec.SchemaOrArray{Schemas: []spec.Schema{a, b}}
		}
	default:
		a, b, c := genLeafSmall(), genLeafSmall(), genLeafSmall()
		s.Items = &spec.SchemaOrArray{Schemas: []spec.Schema{a, b, c}}
	}
	switch verifChoose(4) {
	case 1:
		s.AdditionalItems = &spec.SchemaOrBool{Allows: true}
	case 2:
		s.AdditionalItems = &spec.SchemaOrBool{Allows: false}
	case 3:
		l := genLeafSmall()
		s.AdditionalItems = &spec.SchemaOrBool{Allows: true, Schema: &l}
	}
	switch verifChoose(4) {
	case 1:
		s.MinItems = ptrI(verifPickInt(0, 1, 2, 3))
	case 2:
		s.MaxItems = ptrI(verifPickInt(0, 1, 2, 3))
	case 3:
		s.UniqueItems = true
	}
	n := verifChoose(4 + t)
	arr := make([]interface{}, 0, n)
	for i := 0; i < n; i++ {
		switch verifChoose(2 + t) {
		case 0:
			arr = append(arr, genNum())
		case 1:
			arr = append(arr, "a")
		default:
			arr = append(arr, nil)
		}
	}
	verifKF("C01-KF-ADDITIONALITEMS", s.AdditionalItems != nil && s.AdditionalItems.Schema != nil)
	checkC01(&s, arr)
}

// F5: objects: properties, patternProperties, additionalProperties, required, min/maxProperties,
// dependencies. The schema is {properties:{a: L}} plus one further feature (quick) or two (thorough);
// the instance has members a, ab, b, c with forked presence; a and ab carry values from {number pick, "a"}.
func objFeature(s *spec.Schema, k int) {
	switch k {
	case 1:
		s.Properties["b"] = genLeafSmall()
	case 2:
		s.PatternProperties = map[string]spec.Schema{"^a": genLeafSmall()}
	case 3:
		s.AdditionalProperties = &spec.SchemaOrBool{Allows: true}
	case 4:
		s.AdditionalProperties = &spec.SchemaOrBool{Allows: false}
	case 5:
		l := genLeafSmall()
		s.AdditionalProperties = &spec.SchemaOrBool{Allows: true, Schema: &l}
	case 6:
		s.Required = []string{"a"}
	case 7:
		s.Required = []string{"b", "c"}
	case 8:
		s.MinProperties = ptrI(verifPickInt(0, 1, 2, 3))
	case 9:
		s.MaxProperties = ptrI(verifPickInt(0, 1, 2, 3))
	case 10:
		s.Dependencies = spec.Dependencies{"a": spec.SchemaOrStringArray{Property: []string{"b"}}}
	case 11:
		l := spec.Schema{}
		l.Required = []string{"c"}
		s.Dependencies = spec.Dependencies{"a": spec.SchemaOrStringArray{Schema: &l}}
	case 12:
		s.Type = spec.StringOrArray{"object"}
	}
}

func genObjValue() interface{} {
	if verifBool() {
		return genNum()
	}
	return "a"
}

func HarnessC01Object() {
	s := spec.Schema{}
	s.Properties = map[string]spec.Schema{"a": genLeafSmall()}
	k := verifChoose(13)
	objFeature(&s, k)
	if verifTier() > 0 {
		k2 := verifChoose(13)
		verifAssume(k2 > k || k2 == 0)
		objFeature(&s, k2)
	}
	obj := map[string]interface{}{}
	if verifBool() {
		if len(s.Dependencies) > 0 && verifBool() {
			obj["a"] = nil // a member that is present with the value null still triggers its dependencies
		} else {
			obj["a"] = genObjValue()
		}
	}
	if verifBool() {
		obj["ab"] = genObjValue()
	}
	if verifBool() {
		obj["b"] = 1.0
	}
	if verifBool() {
		obj["c"] = "x"
	}
	checkC01(&s, obj)
}

// F5b: two places where the library departs from draft 4 on purpose (both known findings):
// members called "id" / "$schema" under additionalProperties:false, and a required member that is
// absent but whose property schema carries a default.
func HarnessC01ObjectSpecials() {
	s := spec.Schema{}
	obj := map[string]interface{}{}
	if verifChoose(3) == 2 {
		// a member called headers that holds a $ref, rejected by one alternative of a oneOf / anyOf whose
		// other alternative accepts everything: the composition is satisfied whatever the order
		closed := spec.Schema{}
		closed.AdditionalProperties = &spec.SchemaOrBool{Allows: false}
		alts := []spec.Schema{{}, closed}
		if verifBool() {
			alts = []spec.Schema{closed, {}}
		}
		if verifBool() {
			s.OneOf = alts
		} else {
			s.AnyOf = alts
		}
		obj["headers"] = map[string]interface{}{"X": map[string]interface{}{"$ref": "#/foo"}}
		checkC01(&s, obj)
		return
	}
	if verifBool() {
		s.Properties = map[string]spec.Schema{"a": {}}
		s.AdditionalProperties = &spec.SchemaOrBool{Allows: false}
		special := false
		for _, k := range []string{"a", "id", "$schema", "x", "ids"} {
			if verifBool() {
				obj[k] = 1.0
				special = special || k == "id" || k == "$schema"
			}
		}
		verifKF("C01-KF-ID-SCHEMA-MEMBERS", special)
	} else {
		withDefault := spec.Schema{}
		withDefault.Default = 1.0
		s.Properties = map[string]spec.Schema{"a": withDefault, "b": {}}
		s.Required = []string{"a", "b"}
		if verifBool() {
			obj["a"] = 2.0
		}
		if verifBool() {
			obj["b"] = 2.0
		}
		_, hasA := obj["a"]
		verifKF("C01-KF-DEFAULT-SATISFIES-REQUIRED", !hasA)
	}
	checkC01(&s, obj)
}

// F6: composition: allOf / anyOf / oneOf / not over the leaf family
func HarnessC01Composition() {
	s := spec.Schema{}
	gen := func() []spec.Schema {
		n := 1 + verifChoose(2+verifTier())
		out := make([]spec.Schema, 0, n)
		for i := 0; i < n; i++ {
			out = append(out, genLeaf())
		}
		return out
	}
	switch verifChoose(4) {
	case 0:
		s.AllOf = gen()
	case 1:
		s.AnyOf = gen()
	case 2:
		s.OneOf = gen()
	default:
		l := genLeaf()
		s.Not = &l
	}
	var d interface{}
	switch verifChoose(3) {
	case 0:
		d = genScalar()
	case 1:
		d = []interface{}{}
	default:
		d = map[string]interface{}{}
	}
	checkC01(&s, d)
}

// F6b: composition over string leaves with and without a format: each alternative must be judged
// with its own format (and its own length bounds), whatever stands at the other positions
func genStringLeaf() spec.Schema {
	s := schemaOfType("string")
	switch verifChoose(4) {
	case 1:
		s.Format = "date"
	case 2:
		s.MaxLength = ptrI(3)
	case 3:
		s.Format = "date"
		s.MinLength = ptrI(2)
	}
	return s
}

func HarnessC01StringComposition() {
	s := spec.Schema{}
	n := 2 + verifChoose(1+verifTier())
	alts := make([]spec.Schema, 0, n)
	for i := 0; i < n; i++ {
		alts = append(alts, genStringLeaf())
	}
	switch verifChoose(3) {
	case 0:
		s.OneOf = alts
	case 1:
		s.AnyOf = alts
	default:
		s.AllOf = alts
	}
	var d interface{}
	if verifChoose(4) == 0 {
		d = 1.0
	} else {
		d = []string{"a", "hello", "2020-01-01"}[verifChoose(3)]
	}
	checkC01(&s, d)
}

// F7: enum with null / mixed kinds / nested values
func HarnessC01Enum() {
	s := spec.Schema{}
	n := 1 + verifChoose(2)
	for i := 0; i < n; i++ {
		switch verifChoose(3) {
		case 0:
			s.Enum = append(s.Enum, genScalar())
		case 1:
			s.Enum = append(s.Enum, []interface{}{genNum()})
		default:
			s.Enum = append(s.Enum, map[string]interface{}{"a": genNum()})
		}
	}
	var d interface{}
	switch verifChoose(4) {
	case 0:
		d = genScalar()
	case 1:
		d = []interface{}{genNum()}
	case 3: // a JSON number decoded with UseNumber, next to string members it must not be converted into
		s.Enum = []interface{}{"A", "1"}
		d = []json.Number{"65", "1", "2"}[verifChoose(3)]
	default:
		d = map[string]interface{}{"a": genNum()}
	}
	checkC01(&s, d)
}

// F4b: uniqueItems over composite items (JSON equality of arrays and objects, not of their renderings)
func genComposite() interface{} {
	switch verifChoose(10) {
	case 0:
		return []interface{}{1.0}
	case 1:
		return []interface{}{"1"}
	case 2:
		return []interface{}{verifBool()}
	case 3:
		return []interface{}{"true"}
	case 4:
		return []interface{}{""}
	case 5:
		return []interface{}{}
	case 6:
		return map[string]interface{}{"a": genNum()}
	case 7:
		return map[string]interface{}{"a": "1"}
	case 8:
		return []interface{}{"a b"}
	default:
		return []interface{}{"a", "b"}
	}
}

func HarnessC01UniqueComposite() {
	s := spec.Schema{}
	s.UniqueItems = true
	arr := []interface{}{genComposite(), genComposite()}
	if verifBool() {
		arr = append(arr, genScalar())
	}
	checkC01(&s, arr)
}

// F8 (thorough): nestings of depth 2-3 across keyword groups.
func HarnessC01Nested() {
	s := spec.Schema{}
	var d interface{}
	leafVal := func() interface{} { return genLeafValue() }
	switch verifChoose(4) {
	case 0: // object -> array -> object
		inner := spec.Schema{}
		inner.Properties = map[string]spec.Schema{"b": genLeafSmall()}
		if verifBool() {
			inner.Required = []string{"b"}
		}
		if verifBool() {
			inner.AdditionalProperties = &spec.SchemaOrBool{Allows: false}
		}
		arr := schemaOfType("array")
		arr.Items = &spec.SchemaOrArray{Schema: &inner}
		arr.MaxItems = ptrI(verifPickInt(1, 2))
		s.Properties = map[string]spec.Schema{"a": arr}
		n := verifChoose(3)
		els := make([]interface{}, 0, n)
		for i := 0; i < n; i++ {
			el := map[string]interface{}{}
			if verifBool() {
				el["b"] = leafVal()
			}
			if verifBool() {
				el["z"] = 1.0
			}
			els = append(els, el)
		}
		d = map[string]interface{}{"a": els}
	case 1: // array -> object(patternProperties) -> array
		in2 := schemaOfType("array")
		l := genLeafSmall()
		in2.Items = &spec.SchemaOrArray{Schema: &l}
		in2.UniqueItems = verifBool()
		obj := spec.Schema{}
		obj.PatternProperties = map[string]spec.Schema{"^a": in2}
		s.Items = &spec.SchemaOrArray{Schema: &obj}
		m := verifChoose(3)
		vals := make([]interface{}, 0, m)
		for i := 0; i < m; i++ {
			vals = append(vals, leafVal())
		}
		el := map[string]interface{}{"ab": vals}
		if verifBool() {
			el["b"] = "not-an-array"
		}
		d = []interface{}{el}
	case 2: // allOf[ object, anyOf[ required, typed property ] ]
		o1 := spec.Schema{}
		o1.Properties = map[string]spec.Schema{"a": genLeafSmall()}
		alt1 := spec.Schema{}
		alt1.Required = []string{"b"}
		alt2 := spec.Schema{}
		alt2.Properties = map[string]spec.Schema{"a": schemaOfType("string")}
		alt2.Required = []string{"a"}
		any := spec.Schema{}
		any.AnyOf = []spec.Schema{alt1, alt2}
		s.AllOf = []spec.Schema{o1, any}
		obj := map[string]interface{}{}
		if verifBool() {
			obj["a"] = leafVal()
		}
		if verifBool() {
			obj["b"] = 1.0
		}
		d = obj
	default: // oneOf of two array schemas, not nested inside
		a1 := schemaOfType("array")
		n1 := schemaOfType("number")
		n1.Maximum = ptrF(2)
		a1.Items = &spec.SchemaOrArray{Schema: &n1}
		a2 := schemaOfType("array")
		st := schemaOfType("string")
		a2.Items = &spec.SchemaOrArray{Schema: &st}
		s.OneOf = []spec.Schema{a1, a2}
		neg := schemaOfType("array")
		neg.MinItems = ptrI(3)
		s.Not = &neg
		k := verifChoose(4)
		vals := make([]interface{}, 0, k)
		for i := 0; i < k; i++ {
			vals = append(vals, leafVal())
		}
		d = vals
	}
	checkC01(&s, d)
}
