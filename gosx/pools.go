package main

import (
	"fmt"
	"go/types"
)

// ---------- sync.Pool model, staleness, ownership monitors ----------

func poolNewField(e *Exec) int {
	st := e.prog.ImportedPackage("sync").Type("Pool").Type().Underlying().(*types.Struct)
	return fieldIndex(st, "New")
}

func poolGet(e *Exec, c *frame, a []Value) Value {
	p := a[0].(*Value)
	e.yield()
	e.mon[2]++
	if !e.havoc {
		if items := e.poolItems[p]; len(items) > 0 {
			// history mode: the most recently put object (LIFO, as a single P's private slot does)
			v := items[len(items)-1]
			e.poolItems[p] = items[:len(items)-1]
			if pv, ok := v.(Iface).V.(*Value); ok {
				delete(e.inPool, pv)
				e.poolHB(pv, false)
			}
			return v
		}
	}
	newFn := (*p).(Structure)[poolNewField(e)]
	obj := e.call(c, newFn, nil, 0)
	if e.havoc {
		oi := obj.(Iface)
		if ptr, ok := oi.V.(*Value); ok && ptr != nil {
			e.poison(ptr, oi.T.Underlying().(*types.Pointer).Elem(), oi.T.String())
			e.staleObjs++
			e.run.noteStale()
		}
	}
	return obj
}

func poolPut(e *Exec, c *frame, a []Value) Value {
	p := a[0].(*Value)
	x, ok := a[1].(Iface)
	if !ok || x.T == nil {
		return nil
	}
	e.yield()
	pv, isPtr := x.V.(*Value)
	e.mon[1]++
	if isPtr && pv != nil {
		if g, ok := e.pkgVar("emptyResult"); ok {
			if er, ok := (*g).(*Value); ok && er == pv {
				e.event("escape", "empty-result-pooled", "the shared immutable empty result is put into the pool of results (in "+callerName(c)+")")
			}
		}
		if w, dup := e.inPool[pv]; dup {
			e.event("double-put", "double-put", fmt.Sprintf("%s put into its pool twice without a Get in between (first put at %s, second in %s)", x.T, w, callerName(c)))
			return nil
		}
		e.inPool[pv] = callerName(c)
		e.poolHB(pv, true)
	}
	if _, seen := e.poolItems[p]; !seen {
		e.poolOrder = append(e.poolOrder, p)
	}
	e.poolItems[p] = append(e.poolItems[p], x)
	return nil
}

func callerName(c *frame) string {
	for f := c; f != nil; f = f.caller {
		if f.fn != nil && f.fn.Pkg != nil && f.fn.Pkg.Pkg.Name() != "sync" {
			n := f.fn.String()
			if f.caller != nil && f.caller.fn != nil {
				n += " <- " + f.caller.fn.String()
			}
			return n
		}
	}
	return "?"
}

// poison overwrites every field of *p (of type t) with stale content: scalars become fresh
// solver variables, references become the poison value Stale.
func (e *Exec) poison(p *Value, t types.Type, where string) {
	switch u := t.Underlying().(type) {
	case *types.Struct:
		s := (*p).(Structure)
		for i := range s {
			e.poison(&s[i], u.Field(i).Type(), where+"."+u.Field(i).Name())
		}
	case *types.Array:
		a := (*p).(Array)
		for i := range a {
			e.poison(&a[i], u.Elem(), fmt.Sprintf("%s[%d]", where, i))
		}
	case *types.Basic:
		switch {
		case isBoolB(u):
			*p = e.fresh(SBool, 0, "stale", "stale")
		case isIntB(u):
			w, _ := intWidth(u)
			*p = e.fresh(SBV, w, "stale", "stale")
		case isFloatB(u):
			*p = e.fresh(SFP, fpW(u), "stale", "stale")
		default:
			*p = Stale{where}
		}
	case *types.Slice:
		*p = []Value{Stale{where + "[0]"}, Stale{where + "[1]"}}
	case *types.Map:
		e.mapSeq++
		*p = &Map{KT: u.Key(), VT: u.Elem(), Keys: []Value{Stale{where + ".key"}}, Vals: []Value{Stale{where + ".val"}}, id: e.mapSeq}
	default:
		*p = Stale{where}
	}
}

// ---------- frame monitor (read-only inputs, stateless validators) ----------

func (e *Exec) noteStore(addr *Value, v Value) {
	if len(e.frozen) == 0 {
		return
	}
	e.mon[0]++
	if lbl, ok := e.frozen[addr]; ok {
		old := *addr
		if sameValue(old, v) {
			return
		}
		e.event("frame", "frame:"+lbl, fmt.Sprintf("store to a cell of read-only %s: %s -> %s", lbl, show(old), show(v)))
	}
}

func (e *Exec) noteMapWrite(m *Map, where string) {
	if len(e.frozenMaps) == 0 {
		return
	}
	e.mon[0]++
	if lbl, ok := e.frozenMaps[m]; ok {
		e.event("frame", "frame:"+lbl, fmt.Sprintf("update of a map of read-only %s in %s", lbl, where))
	}
}

func sameValue(a, b Value) bool {
	switch x := a.(type) {
	case *Term:
		y, ok := b.(*Term)
		return ok && (x == y || sameConst(x, y))
	case string:
		y, ok := b.(string)
		return ok && x == y
	case *Value:
		y, ok := b.(*Value)
		return ok && x == y
	case *Map:
		y, ok := b.(*Map)
		return ok && x == y
	case nil:
		return b == nil
	case Iface:
		y, ok := b.(Iface)
		if !ok {
			return false
		}
		if x.T == nil || y.T == nil {
			return x.T == nil && y.T == nil
		}
		return types.Identical(x.T, y.T) && sameValue(x.V, y.V)
	case []Value:
		y, ok := b.([]Value)
		if !ok || len(x) != len(y) {
			return false
		}
		if len(x) == 0 {
			return (x == nil) == (y == nil)
		}
		return &x[0] == &y[0]
	}
	return false
}

// walk visits every cell reachable from v.
type walker struct {
	seenP map[*Value]bool
	seenM map[*Map]bool
	cell  func(p *Value)
	mp    func(m *Map)
}

func (w *walker) walkCell(p *Value) {
	if p == nil || w.seenP[p] {
		return
	}
	w.seenP[p] = true
	if w.cell != nil {
		w.cell(p)
	}
	w.walkInner(*p)
}

// walkInner visits the sub-cells of an aggregate stored in place.
func (w *walker) walkInner(v Value) {
	switch x := v.(type) {
	case Structure:
		for i := range x {
			w.walkCell(&x[i])
		}
	case Array:
		for i := range x {
			w.walkCell(&x[i])
		}
	default:
		w.walk(v)
	}
}

func (w *walker) walk(v Value) {
	switch x := v.(type) {
	case *Value:
		w.walkCell(x)
	case Structure, Array:
		w.walkInner(x)
	case []Value:
		full := x[:cap(x)]
		for i := range full {
			w.walkCell(&full[i])
		}
	case *Map:
		if x == nil || w.seenM[x] {
			return
		}
		w.seenM[x] = true
		if w.mp != nil {
			w.mp(x)
		}
		for i := range x.Keys {
			if x.Keys[i] != nil {
				w.walk(x.Keys[i])
				w.walkCell(&x.Vals[i])
			}
		}
	case Iface:
		if x.T != nil {
			w.walk(x.V)
		}
	case RValue:
		if x.T != nil {
			w.walk(x.V)
		}
	case *Closure:
		if x != nil {
			for _, c := range x.Env {
				w.walk(c)
			}
		}
	case Tuple:
		for _, c := range x {
			w.walk(c)
		}
	}
}

func newWalker() *walker { return &walker{seenP: map[*Value]bool{}, seenM: map[*Map]bool{}} }

func (e *Exec) freeze(v Value, label string) {
	if e.frozen == nil {
		e.frozen = map[*Value]string{}
		e.frozenMaps = map[*Map]string{}
	}
	w := newWalker()
	w.cell = func(p *Value) { e.frozen[p] = label }
	w.mp = func(m *Map) { e.frozenMaps[m] = label }
	w.walk(v)
}

func (e *Exec) unfreeze() {
	e.frozen = nil
	e.frozenMaps = nil
}

// checkPoolInv asserts the pool invariant Inv of DESIGN 2.6 at the end of an operation:
// (i) no object twice in a pool (checked on Put), (ii) no pooled object reachable from roots.
func (e *Exec) checkPoolInv(roots []Value) {
	if len(e.inPool) == 0 {
		return
	}
	w := newWalker()
	w.cell = func(p *Value) {
		if at, ok := e.inPool[p]; ok {
			e.event("escape", "escape", fmt.Sprintf("an object that is in its pool (put at %s) is still reachable from the caller's values", at))
		}
	}
	for _, r := range roots {
		w.walk(r)
	}
}

// pkgVar returns the cell of a package-level variable of package validate, if it exists.
func (e *Exec) pkgVar(name string) (*Value, bool) {
	for _, ip := range e.run.initPkgs {
		if ip.Pkg.Path() == "github.com/go-openapi/validate" {
			if g := ip.Var(name); g != nil {
				return e.global(g), true
			}
		}
	}
	return nil, false
}
