package main

// Contract model of unicode/utf8.RuneCountInString over a string of symbolic bytes (BStr), written
// from the documented decoding rules (RFC 3629 well-formedness table; every byte that does not
// start a well-formed sequence counts as one code point, U+FFFD, of width 1).
// reach[i]: the decoder's scan lands on position i; count = number of positions it lands on.

func inRange(b *Term, lo, hi uint64) *Term {
	return andT(mk(OBvUle, 0, cBV(lo, 8), b), mk(OBvUle, 0, b, cBV(hi, 8)))
}

func bstrRuneCount(s BStr) *Term {
	n := len(s)
	reach := make([]*Term, n+1)
	for i := range reach {
		reach[i] = tFalse
	}
	reach[0] = tTrue
	count := cBV(0, 64)
	cont := func(i int) *Term { return inRange(s[i], 0x80, 0xBF) }
	for i := 0; i < n; i++ {
		b := s[i]
		// width of the sequence starting at i (1 when ill-formed or truncated)
		w2, w3, w4 := tFalse, tFalse, tFalse
		if i+1 < n {
			w2 = andT(inRange(b, 0xC2, 0xDF), cont(i+1))
		}
		if i+2 < n {
			second := orT(orT(andT(eqT(b, cBV(0xE0, 8)), inRange(s[i+1], 0xA0, 0xBF)),
				andT(orT(inRange(b, 0xE1, 0xEC), inRange(b, 0xEE, 0xEF)), cont(i+1))),
				andT(eqT(b, cBV(0xED, 8)), inRange(s[i+1], 0x80, 0x9F)))
			w3 = andT(second, cont(i+2))
		}
		if i+3 < n {
			second := orT(orT(andT(eqT(b, cBV(0xF0, 8)), inRange(s[i+1], 0x90, 0xBF)),
				andT(inRange(b, 0xF1, 0xF3), cont(i+1))),
				andT(eqT(b, cBV(0xF4, 8)), inRange(s[i+1], 0x80, 0x8F)))
			w4 = andT(andT(second, cont(i+2)), cont(i+3))
		}
		w1 := notT(orT(orT(w2, w3), w4))
		count = mk(OBvAdd, 0, count, iteT(reach[i], cBV(1, 64), cBV(0, 64)))
		reach[i+1] = orT(reach[i+1], andT(reach[i], w1))
		if i+2 <= n {
			reach[i+2] = orT(reach[i+2], andT(reach[i], w2))
		}
		if i+3 <= n {
			reach[i+3] = orT(reach[i+3], andT(reach[i], w3))
		}
		if i+4 <= n {
			reach[i+4] = orT(reach[i+4], andT(reach[i], w4))
		}
	}
	return count
}
