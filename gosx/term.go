package main

import (
	"fmt"
	"go/token"
	"go/types"
	"math"
	"sort"
	"strings"
)

// ---------------- terms ----------------
//
// A Term is a scalar of the program under test: Bool, bit-vector (Go ints) or IEEE float.
// Terms are structured DAGs so that they can be (a) simplified, (b) evaluated natively under
// a solver model (concolic guidance, witness replay) and (c) printed as SMT-LIB2 with sharing.

type Sort uint8

const (
	SBool Sort = iota
	SBV
	SFP
)

type Op uint8

const (
	OConst Op = iota
	OVar
	ONot
	OAnd
	OOr
	OIte
	OEq // bool / bv equality
	OBvAdd
	OBvSub
	OBvMul
	OBvUDiv
	OBvSDiv
	OBvURem
	OBvSRem
	OBvAnd
	OBvOr
	OBvXor
	OBvNot
	OBvNeg
	OBvShl
	OBvLshr
	OBvAshr
	OBvUlt
	OBvUle
	OBvSlt
	OBvSle
	OExtract // P = new width (low bits)
	OZeroExt // W = new width
	OSignExt
	OFpOfBits // reinterpret BV as FP
	OFpAdd
	OFpSub
	OFpMul
	OFpDiv
	OFpNeg
	OFpAbs
	OFpEq
	OFpLt
	OFpLe
	OFpIsNaN
	OFpIsInf
	OFpIsZero
	OFpIsNeg
	OFpTrunc // roundToIntegral RTZ
	OFpToSbv // RTZ, W = target width (argument must be in range)
	OFpToUbv // RTZ
	OSbvToFp // RNE
	OUbvToFp // RNE
	OFpToFp  // RNE, W = target
)

var opName = map[Op]string{
	ONot: "not", OAnd: "and", OOr: "or", OIte: "ite", OEq: "=",
	OBvAdd: "bvadd", OBvSub: "bvsub", OBvMul: "bvmul", OBvUDiv: "bvudiv", OBvSDiv: "bvsdiv", OBvURem: "bvurem", OBvSRem: "bvsrem",
	OBvAnd: "bvand", OBvOr: "bvor", OBvXor: "bvxor", OBvNot: "bvnot", OBvNeg: "bvneg", OBvShl: "bvshl", OBvLshr: "bvlshr", OBvAshr: "bvashr",
	OBvUlt: "bvult", OBvUle: "bvule", OBvSlt: "bvslt", OBvSle: "bvsle",
	OFpAdd: "fp.add RNE", OFpSub: "fp.sub RNE", OFpMul: "fp.mul RNE", OFpDiv: "fp.div RNE", OFpNeg: "fp.neg", OFpAbs: "fp.abs",
	OFpEq: "fp.eq", OFpLt: "fp.lt", OFpLe: "fp.leq", OFpIsNaN: "fp.isNaN", OFpIsInf: "fp.isInfinite", OFpIsZero: "fp.isZero", OFpIsNeg: "fp.isNegative",
	OFpTrunc: "fp.roundToIntegral RTZ",
}

// Term: C holds the bits of a constant (bool: 0/1, bv: value masked to W, fp: IEEE bits).
type Term struct {
	Op   Op
	S    Sort
	W    int // bv width / fp width (32|64); 0 for Bool
	A    []*Term
	C    uint64
	Name string // OVar
	FD   *fdTab // finite-domain value: decision table over selector terms (see below)
	id   int32  // printing scratch
}

func (t *Term) conc() bool { return t.Op == OConst }
func (t *Term) b() bool    { return t.C != 0 }
func (t *Term) u() uint64  { return t.C }
func (t *Term) f() float64 {
	if t.W == 32 {
		return float64(math.Float32frombits(uint32(t.C)))
	}
	return math.Float64frombits(t.C)
}

var tTrue = &Term{Op: OConst, S: SBool, C: 1}
var tFalse = &Term{Op: OConst, S: SBool, C: 0}

func cBool(b bool) *Term {
	if b {
		return tTrue
	}
	return tFalse
}
func cBV(v uint64, w int) *Term { return &Term{Op: OConst, S: SBV, W: w, C: v & mask(w)} }
func cFP(f float64, w int) *Term {
	if w == 32 {
		return &Term{Op: OConst, S: SFP, W: 32, C: uint64(math.Float32bits(float32(f)))}
	}
	return &Term{Op: OConst, S: SFP, W: 64, C: math.Float64bits(f)}
}
func cBits(s Sort, w int, bits uint64) *Term {
	switch s {
	case SBool:
		return cBool(bits != 0)
	case SBV:
		return cBV(bits, w)
	}
	return &Term{Op: OConst, S: SFP, W: w, C: bits & mask(w)}
}
func mkVar(s Sort, w int, name string) *Term { return &Term{Op: OVar, S: s, W: w, Name: name} }

func mask(w int) uint64 {
	if w >= 64 || w == 0 {
		return ^uint64(0)
	}
	return (uint64(1) << uint(w)) - 1
}
func sx(v uint64, w int) int64 {
	if w == 0 || w >= 64 {
		return int64(v)
	}
	sh := uint(64 - w)
	return int64(v<<sh) >> sh
}

// ---------------- generic constructor with folding ----------------

func allConc(a []*Term) bool {
	for _, x := range a {
		if !x.conc() {
			return false
		}
	}
	return true
}

func resultSort(op Op, a []*Term, w int) (Sort, int) {
	switch op {
	case ONot, OAnd, OOr, OEq, OBvUlt, OBvUle, OBvSlt, OBvSle, OFpEq, OFpLt, OFpLe, OFpIsNaN, OFpIsInf, OFpIsZero, OFpIsNeg:
		return SBool, 0
	case OIte:
		return a[1].S, a[1].W
	case OExtract, OZeroExt, OSignExt, OFpToSbv, OFpToUbv:
		return SBV, w
	case OFpOfBits:
		return SFP, a[0].W
	case OSbvToFp, OUbvToFp, OFpToFp:
		return SFP, w
	}
	return a[0].S, a[0].W
}

// mk builds op(a...) with constant folding; w is the target width for width-changing ops.
func mk(op Op, w int, a ...*Term) *Term {
	s, rw := resultSort(op, a, w)
	if allConc(a) {
		if op == OBvUDiv || op == OBvSDiv || op == OBvURem || op == OBvSRem {
			if a[1].C == 0 {
				panic(goPanic{"runtime error: integer divide by zero"})
			}
		}
		return cBits(s, rw, evalOp(op, s, rw, a, func(i int) uint64 { return a[i].C }))
	}
	return &Term{Op: op, S: s, W: rw, A: a}
}

func notT(t *Term) *Term {
	if t.conc() {
		return cBool(!t.b())
	}
	if t.FD != nil {
		if r, ok := fdApply1(t, func(a *Term) *Term { return cBool(!a.b()) }); ok {
			return r
		}
	}
	if t.Op == ONot {
		return t.A[0]
	}
	return &Term{Op: ONot, S: SBool, A: []*Term{t}}
}
func andT(a, b *Term) *Term {
	if a.conc() {
		if a.b() {
			return b
		}
		return a
	}
	if b.conc() {
		if b.b() {
			return a
		}
		return b
	}
	if a == b {
		return a
	}
	if a.FD != nil && b.FD != nil {
		if r, ok := fdApply2(a, b, func(x, y *Term) *Term { return cBool(x.b() && y.b()) }); ok {
			return r
		}
	}
	return &Term{Op: OAnd, S: SBool, A: []*Term{a, b}}
}
func orT(a, b *Term) *Term {
	if a.conc() {
		if a.b() {
			return a
		}
		return b
	}
	if b.conc() {
		if b.b() {
			return b
		}
		return a
	}
	if a == b {
		return a
	}
	if a.FD != nil && b.FD != nil {
		if r, ok := fdApply2(a, b, func(x, y *Term) *Term { return cBool(x.b() || y.b()) }); ok {
			return r
		}
	}
	return &Term{Op: OOr, S: SBool, A: []*Term{a, b}}
}
func impliesT(a, b *Term) *Term { return orT(notT(a), b) }

func sameConst(a, b *Term) bool {
	return a.conc() && b.conc() && a.S == b.S && a.W == b.W && a.C == b.C
}

func iteT(c, a, b *Term) *Term {
	if c.conc() {
		if c.b() {
			return a
		}
		return b
	}
	if a == b || sameConst(a, b) {
		return a
	}
	if isFD(a) && isFD(b) {
		if isFD(c) {
			if r, ok := fdApplyN(func(x []*Term) *Term {
				if x[0].b() {
					return x[1]
				}
				return x[2]
			}, c, a, b); ok {
				return r
			}
		} else if c.S == SBool {
			// a fresh Boolean selector
			sel := &Term{Op: c.Op, S: SBool, A: c.A, C: c.C, Name: c.Name, FD: &fdTab{sels: []*Term{c}, doms: []int{2}, vals: []uint64{0, 1}}}
			if r, ok := fdApplyN(func(x []*Term) *Term {
				if x[0].b() {
					return x[1]
				}
				return x[2]
			}, sel, a, b); ok {
				return r
			}
		}
	}
	if a.S == SBool {
		return orT(andT(c, a), andT(notT(c), b))
	}
	return &Term{Op: OIte, S: a.S, W: a.W, A: []*Term{c, a, b}}
}

// eqT: equality of two scalars of the same sort with Go semantics (floats: fp.eq).
func eqT(x, y *Term) *Term {
	if x.S != y.S || x.W != y.W {
		panic(abort(fmt.Sprintf("eqT sort mismatch %d/%d vs %d/%d", x.S, x.W, y.S, y.W)))
	}
	if r, ok := fdApply2(x, y, eqT); ok {
		return r
	}
	if x.S == SFP {
		return mk(OFpEq, 0, x, y)
	}
	if x == y || structEq(x, y, 8) {
		return tTrue
	}
	if x.S == SBool {
		if x.conc() {
			if x.b() {
				return y
			}
			return notT(y)
		}
		if y.conc() {
			if y.b() {
				return x
			}
			return notT(x)
		}
	}
	return mk(OEq, 0, x, y)
}

// structEq: the two terms are the same expression (bounded depth); sound for Bool / BV equality.
func structEq(x, y *Term, depth int) bool {
	if x == y {
		return true
	}
	if depth == 0 || x.Op != y.Op || x.S != y.S || x.W != y.W || x.C != y.C || x.Name != y.Name || len(x.A) != len(y.A) || x.FD != nil || y.FD != nil {
		return false
	}
	if x.Op == OVar || x.Op == OConst {
		return x.Op == OConst // distinct variable objects with the same name do not occur, but do not rely on it
	}
	for i := range x.A {
		if !structEq(x.A[i], y.A[i], depth-1) {
			return false
		}
	}
	return true
}

// ---------------- finite-domain values ----------------
//
// A finite-domain term is a decision table over selector terms: each selector is either a
// "pick" variable (bit-vector constrained to 0..n-1) or an arbitrary Bool term (domain 2).
// Operators are applied pointwise on the union of the supports, inside the engine, so what the
// solver sees of a computation on finite-domain values is a nested ite over the selectors
// with constant leaves (purely propositional).

type fdTab struct {
	sels []*Term
	doms []int
	vals []uint64 // row-major, selector 0 most significant
}

const fdMaxTable = 4096

func (t *Term) fd() *fdTab {
	if t.Op == OConst {
		return &fdTab{vals: []uint64{t.C}}
	}
	return t.FD
}

func isFD(t *Term) bool { return t.Op == OConst || t.FD != nil }

// fdUnion computes the union support of tables and, for every row of the union, the row index in each input.
func fdUnion(tabs ...*fdTab) (sels []*Term, doms []int, rows [][]int, ok bool) {
	pos := map[*Term]int{}
	for _, tb := range tabs {
		for i, sl := range tb.sels {
			if _, seen := pos[sl]; !seen {
				pos[sl] = len(sels)
				sels = append(sels, sl)
				doms = append(doms, tb.doms[i])
			}
		}
	}
	size := 1
	for _, d := range doms {
		size *= d
		if size > fdMaxTable {
			return nil, nil, nil, false
		}
	}
	rows = make([][]int, len(tabs))
	for k := range rows {
		rows[k] = make([]int, size)
	}
	idx := make([]int, len(sels))
	for r := 0; r < size; r++ {
		// decode r into idx (selector 0 most significant)
		x := r
		for i := len(sels) - 1; i >= 0; i-- {
			idx[i] = x % doms[i]
			x /= doms[i]
		}
		for k, tb := range tabs {
			row := 0
			for i, sl := range tb.sels {
				row = row*tb.doms[i] + idx[pos[sl]]
			}
			rows[k][r] = row
		}
	}
	return sels, doms, rows, true
}

// fdBuild makes the term for a table (nested ite over the selectors, constants at the leaves).
func fdBuild(s Sort, w int, sels []*Term, doms []int, vals []uint64) *Term {
	allSame := true
	for _, v := range vals[1:] {
		if v != vals[0] {
			allSame = false
			break
		}
	}
	if allSame {
		return cBits(s, w, vals[0])
	}
	// drop selectors the value does not depend on
	for i := 0; i < len(sels); i++ {
		stride := 1
		for _, d := range doms[i+1:] {
			stride *= d
		}
		block := stride * doms[i]
		dep := false
	outer:
		for base := 0; base < len(vals); base += block {
			for off := 0; off < stride; off++ {
				v0 := vals[base+off]
				for k := 1; k < doms[i]; k++ {
					if vals[base+k*stride+off] != v0 {
						dep = true
						break outer
					}
				}
			}
		}
		if !dep {
			nv := make([]uint64, 0, len(vals)/doms[i])
			for base := 0; base < len(vals); base += block {
				nv = append(nv, vals[base:base+stride]...)
			}
			ns := append(append([]*Term{}, sels[:i]...), sels[i+1:]...)
			nd := append(append([]int{}, doms[:i]...), doms[i+1:]...)
			return fdBuild(s, w, ns, nd, nv)
		}
	}
	tab := &fdTab{sels: sels, doms: doms, vals: vals}
	e := fdExpand(s, w, sels, doms, vals)
	return &Term{Op: e.Op, S: s, W: w, A: e.A, C: e.C, Name: e.Name, FD: tab}
}

func fdExpand(s Sort, w int, sels []*Term, doms []int, vals []uint64) *Term {
	if len(sels) == 0 {
		return cBits(s, w, vals[0])
	}
	allSame := true
	for _, v := range vals[1:] {
		if v != vals[0] {
			allSame = false
			break
		}
	}
	if allSame {
		return cBits(s, w, vals[0])
	}
	stride := len(vals) / doms[0]
	sel := sels[0]
	sub := make([]*Term, doms[0])
	for k := 0; k < doms[0]; k++ {
		sub[k] = fdExpand(s, w, sels[1:], doms[1:], vals[k*stride:(k+1)*stride])
	}
	plainIte := func(c, a, b *Term) *Term {
		if a == b || sameConst(a, b) {
			return a
		}
		if s == SBool {
			return plainOr(plainAnd(c, a), plainAnd(plainNot(c), b))
		}
		return &Term{Op: OIte, S: s, W: w, A: []*Term{c, a, b}}
	}
	if sel.S == SBool {
		return plainIte(sel, sub[1], sub[0])
	}
	acc := sub[doms[0]-1]
	for k := doms[0] - 2; k >= 0; k-- {
		acc = plainIte(&Term{Op: OEq, S: SBool, A: []*Term{sel, cBV(uint64(k), sel.W)}}, sub[k], acc)
	}
	return acc
}

// structural connectives without finite-domain dispatch (used while expanding tables)
func plainNot(t *Term) *Term {
	if t.conc() {
		return cBool(!t.b())
	}
	if t.Op == ONot && t.FD == nil {
		return t.A[0]
	}
	return &Term{Op: ONot, S: SBool, A: []*Term{t}}
}
func plainAnd(a, b *Term) *Term {
	if a.conc() {
		if a.b() {
			return b
		}
		return a
	}
	if b.conc() {
		if b.b() {
			return a
		}
		return b
	}
	if a == b {
		return a
	}
	return &Term{Op: OAnd, S: SBool, A: []*Term{a, b}}
}
func plainOr(a, b *Term) *Term {
	if a.conc() {
		if a.b() {
			return a
		}
		return b
	}
	if b.conc() {
		if b.b() {
			return b
		}
		return a
	}
	if a == b {
		return a
	}
	return &Term{Op: OOr, S: SBool, A: []*Term{a, b}}
}

// fdPick: the value vals[p] for a pick variable p constrained to 0..len(vals)-1.
func fdPick(p *Term, vals []*Term) *Term {
	v := make([]uint64, len(vals))
	for i, t := range vals {
		v[i] = t.C
	}
	return fdBuild(vals[0].S, vals[0].W, []*Term{p}, []int{len(vals)}, v)
}

// fdApplyN applies f pointwise when every operand is concrete or finite-domain (and at least one is not concrete).
func fdApplyN(f func(args []*Term) *Term, xs ...*Term) (res *Term, ok bool) {
	// a row that is infeasible under the path condition may make the operator panic (division by a
	// zero that cannot occur): give up the pointwise application and let the caller go symbolic
	defer func() {
		if r := recover(); r != nil {
			if _, isGo := r.(goPanic); isGo {
				res, ok = nil, false
				return
			}
			panic(r)
		}
	}()
	any := false
	for _, x := range xs {
		if !isFD(x) {
			return nil, false
		}
		if !x.conc() {
			any = true
		}
	}
	if !any {
		return nil, false
	}
	tabs := make([]*fdTab, len(xs))
	for i, x := range xs {
		tabs[i] = x.fd()
	}
	sels, doms, rows, ok := fdUnion(tabs...)
	if !ok {
		return nil, false
	}
	n := len(rows[0])
	vals := make([]uint64, n)
	args := make([]*Term, len(xs))
	var rs Sort
	var rw int
	for r := 0; r < n; r++ {
		for k, x := range xs {
			args[k] = cBits(x.S, x.W, tabs[k].vals[rows[k][r]])
		}
		res := f(args)
		if !res.conc() {
			return nil, false
		}
		vals[r] = res.C
		rs, rw = res.S, res.W
	}
	return fdBuild(rs, rw, sels, doms, vals), true
}

func fdApply2(x, y *Term, f func(a, b *Term) *Term) (*Term, bool) {
	if x.conc() && y.conc() {
		return nil, false
	}
	return fdApplyN(func(a []*Term) *Term { return f(a[0], a[1]) }, x, y)
}

func fdApply1(x *Term, f func(a *Term) *Term) (*Term, bool) {
	if x.conc() {
		return nil, false
	}
	return fdApplyN(func(a []*Term) *Term { return f(a[0]) }, x)
}

// fdValues lists the distinct values of a finite-domain term.
func fdValues(t *Term) []uint64 {
	seen := map[uint64]bool{}
	var out []uint64
	for _, v := range t.FD.vals {
		if !seen[v] {
			seen[v] = true
			out = append(out, v)
		}
	}
	return out
}

// ---------------- evaluation ----------------

func b2u(b bool) uint64 {
	if b {
		return 1
	}
	return 0
}

func fpFrom(bits uint64, w int) float64 {
	if w == 32 {
		return float64(math.Float32frombits(uint32(bits)))
	}
	return math.Float64frombits(bits)
}
func fpBits(f float64, w int) uint64 {
	if w == 32 {
		return uint64(math.Float32bits(float32(f)))
	}
	return math.Float64bits(f)
}

// evalOp computes one operator on concrete argument bits; s/w are the result sort/width.
func evalOp(op Op, s Sort, w int, a []*Term, arg func(i int) uint64) uint64 {
	aw := 0
	if len(a) > 0 {
		aw = a[0].W
	}
	switch op {
	case ONot:
		return b2u(arg(0) == 0)
	case OAnd:
		return b2u(arg(0) != 0 && arg(1) != 0)
	case OOr:
		return b2u(arg(0) != 0 || arg(1) != 0)
	case OIte:
		if arg(0) != 0 {
			return arg(1)
		}
		return arg(2)
	case OEq:
		return b2u(arg(0) == arg(1))
	case OBvAdd:
		return (arg(0) + arg(1)) & mask(w)
	case OBvSub:
		return (arg(0) - arg(1)) & mask(w)
	case OBvMul:
		return (arg(0) * arg(1)) & mask(w)
	case OBvUDiv:
		if arg(1) == 0 {
			return mask(w)
		}
		return arg(0) / arg(1)
	case OBvURem:
		if arg(1) == 0 {
			return arg(0)
		}
		return arg(0) % arg(1)
	case OBvSDiv:
		x, y := sx(arg(0), w), sx(arg(1), w)
		if y == 0 {
			if x < 0 {
				return 1
			}
			return mask(w)
		}
		if y == -1 {
			return uint64(-x) & mask(w)
		}
		return uint64(x/y) & mask(w)
	case OBvSRem:
		x, y := sx(arg(0), w), sx(arg(1), w)
		if y == 0 {
			return arg(0)
		}
		if y == -1 {
			return 0
		}
		return uint64(x%y) & mask(w)
	case OBvAnd:
		return arg(0) & arg(1)
	case OBvOr:
		return arg(0) | arg(1)
	case OBvXor:
		return arg(0) ^ arg(1)
	case OBvNot:
		return ^arg(0) & mask(w)
	case OBvNeg:
		return (-arg(0)) & mask(w)
	case OBvShl:
		if arg(1) >= uint64(w) {
			return 0
		}
		return (arg(0) << arg(1)) & mask(w)
	case OBvLshr:
		if arg(1) >= uint64(w) {
			return 0
		}
		return arg(0) >> arg(1)
	case OBvAshr:
		c := arg(1)
		if c >= uint64(w) {
			c = uint64(w - 1)
		}
		return uint64(sx(arg(0), w)>>c) & mask(w)
	case OBvUlt:
		return b2u(arg(0) < arg(1))
	case OBvUle:
		return b2u(arg(0) <= arg(1))
	case OBvSlt:
		return b2u(sx(arg(0), aw) < sx(arg(1), aw))
	case OBvSle:
		return b2u(sx(arg(0), aw) <= sx(arg(1), aw))
	case OExtract:
		return arg(0) & mask(w)
	case OZeroExt:
		return arg(0)
	case OSignExt:
		return uint64(sx(arg(0), aw)) & mask(w)
	case OFpOfBits:
		return arg(0)
	case OFpAdd, OFpSub, OFpMul, OFpDiv:
		if w == 32 {
			x, y := math.Float32frombits(uint32(arg(0))), math.Float32frombits(uint32(arg(1)))
			var r float32
			switch op {
			case OFpAdd:
				r = x + y
			case OFpSub:
				r = x - y
			case OFpMul:
				r = x * y
			default:
				r = x / y
			}
			return uint64(math.Float32bits(r))
		}
		x, y := math.Float64frombits(arg(0)), math.Float64frombits(arg(1))
		var r float64
		switch op {
		case OFpAdd:
			r = x + y
		case OFpSub:
			r = x - y
		case OFpMul:
			r = x * y
		default:
			r = x / y
		}
		return math.Float64bits(r)
	case OFpNeg:
		if w == 32 {
			return arg(0) ^ (1 << 31)
		}
		return arg(0) ^ (1 << 63)
	case OFpAbs:
		if w == 32 {
			return arg(0) &^ (1 << 31)
		}
		return arg(0) &^ (1 << 63)
	case OFpEq:
		return b2u(fpFrom(arg(0), aw) == fpFrom(arg(1), aw))
	case OFpLt:
		return b2u(fpFrom(arg(0), aw) < fpFrom(arg(1), aw))
	case OFpLe:
		return b2u(fpFrom(arg(0), aw) <= fpFrom(arg(1), aw))
	case OFpIsNaN:
		return b2u(math.IsNaN(fpFrom(arg(0), aw)))
	case OFpIsInf:
		return b2u(math.IsInf(fpFrom(arg(0), aw), 0))
	case OFpIsZero:
		return b2u(fpFrom(arg(0), aw) == 0)
	case OFpIsNeg:
		f := fpFrom(arg(0), aw)
		return b2u(!math.IsNaN(f) && math.Signbit(f))
	case OFpTrunc:
		return fpBits(math.Trunc(fpFrom(arg(0), aw)), w)
	case OFpToSbv:
		return uint64(int64(fpFrom(arg(0), aw))) & mask(w)
	case OFpToUbv:
		f := fpFrom(arg(0), aw)
		if f >= 9223372036854775808.0 {
			return (uint64(int64(f-9223372036854775808.0)) + (1 << 63)) & mask(w)
		}
		return uint64(int64(f)) & mask(w)
	case OSbvToFp:
		v := sx(arg(0), aw)
		if w == 32 {
			return uint64(math.Float32bits(float32(v)))
		}
		return math.Float64bits(float64(v))
	case OUbvToFp:
		if w == 32 {
			return uint64(math.Float32bits(float32(arg(0))))
		}
		return math.Float64bits(float64(arg(0)))
	case OFpToFp:
		return fpBits(fpFrom(arg(0), aw), w)
	}
	panic(abort(fmt.Sprintf("evalOp %d", op)))
}

// Model maps variable names to bits; missing variables evaluate to 0.
type Model map[string]uint64

type evaluator struct {
	m    Model
	memo map[*Term]uint64
}

func newEval(m Model) *evaluator { return &evaluator{m: m, memo: map[*Term]uint64{}} }

func (ev *evaluator) eval(t *Term) uint64 {
	switch t.Op {
	case OConst:
		return t.C
	case OVar:
		return ev.m[t.Name] & mask(t.W)
	}
	if v, ok := ev.memo[t]; ok {
		return v
	}
	var v uint64
	switch t.Op {
	case OIte: // lazy
		if ev.eval(t.A[0]) != 0 {
			v = ev.eval(t.A[1])
		} else {
			v = ev.eval(t.A[2])
		}
	case OAnd:
		v = b2u(ev.eval(t.A[0]) != 0 && ev.eval(t.A[1]) != 0)
	case OOr:
		v = b2u(ev.eval(t.A[0]) != 0 || ev.eval(t.A[1]) != 0)
	default:
		v = evalOp(t.Op, t.S, t.W, t.A, func(i int) uint64 { return ev.eval(t.A[i]) })
	}
	ev.memo[t] = v
	return v
}

// ---------------- SMT-LIB printing ----------------

func bvLit(v uint64, w int) string {
	if w%4 == 0 {
		return fmt.Sprintf("#x%0*x", w/4, v&mask(w))
	}
	return fmt.Sprintf("#b%0*b", w, v&mask(w))
}
func fpDims(w int) string {
	if w == 32 {
		return "8 24"
	}
	return "11 53"
}
func sortStr(s Sort, w int) string {
	switch s {
	case SBool:
		return "Bool"
	case SBV:
		return fmt.Sprintf("(_ BitVec %d)", w)
	}
	return "(_ FloatingPoint " + fpDims(w) + ")"
}
func fpLitBits(b uint64, w int) string {
	if w == 32 {
		return fmt.Sprintf("(fp #b%b #b%08b #b%023b)", (b>>31)&1, (b>>23)&0xff, b&0x7fffff)
	}
	return fmt.Sprintf("(fp #b%b #b%011b #b%052b)", b>>63, (b>>52)&0x7ff, b&((1<<52)-1))
}

// smtPrinter prints a set of assertions with shared sub-terms bound by define-fun.
type smtPrinter struct {
	sb     strings.Builder
	refs   map[*Term]int
	names  map[*Term]string
	vars   map[string]*Term
	nextID int
}

func (p *smtPrinter) count(t *Term) {
	p.refs[t]++
	if p.refs[t] > 1 {
		return
	}
	if t.Op == OVar {
		p.vars[t.Name] = t
	}
	for _, a := range t.A {
		p.count(a)
	}
}

func (p *smtPrinter) expr(t *Term) string {
	switch t.Op {
	case OConst:
		switch t.S {
		case SBool:
			if t.C != 0 {
				return "true"
			}
			return "false"
		case SBV:
			return bvLit(t.C, t.W)
		}
		return fpLitBits(t.C, t.W)
	case OVar:
		return t.Name
	}
	if n, ok := p.names[t]; ok {
		return n
	}
	var args []string
	for _, a := range t.A {
		args = append(args, p.expr(a))
	}
	var e string
	switch t.Op {
	case OExtract:
		e = fmt.Sprintf("((_ extract %d 0) %s)", t.W-1, args[0])
	case OZeroExt:
		e = fmt.Sprintf("((_ zero_extend %d) %s)", t.W-t.A[0].W, args[0])
	case OSignExt:
		e = fmt.Sprintf("((_ sign_extend %d) %s)", t.W-t.A[0].W, args[0])
	case OFpOfBits:
		e = fmt.Sprintf("((_ to_fp %s) %s)", fpDims(t.W), args[0])
	case OFpToSbv:
		e = fmt.Sprintf("((_ fp.to_sbv %d) RTZ %s)", t.W, args[0])
	case OFpToUbv:
		e = fmt.Sprintf("((_ fp.to_ubv %d) RTZ %s)", t.W, args[0])
	case OSbvToFp, OFpToFp:
		e = fmt.Sprintf("((_ to_fp %s) RNE %s)", fpDims(t.W), args[0])
	case OUbvToFp:
		e = fmt.Sprintf("((_ to_fp_unsigned %s) RNE %s)", fpDims(t.W), args[0])
	default:
		e = "(" + opName[t.Op] + " " + strings.Join(args, " ") + ")"
	}
	if p.refs[t] > 1 {
		p.nextID++
		n := fmt.Sprintf("t!%d", p.nextID)
		fmt.Fprintf(&p.sb, "(define-fun %s () %s %s)\n", n, sortStr(t.S, t.W), e)
		p.names[t] = n
		return n
	}
	return e
}

// smtQuery renders declarations, shared definitions and assertions; returns text and sorted var names.
func smtQuery(asserts []*Term) (string, []*Term) {
	p := &smtPrinter{refs: map[*Term]int{}, names: map[*Term]string{}, vars: map[string]*Term{}}
	for _, a := range asserts {
		p.count(a)
	}
	var names []string
	for n := range p.vars {
		names = append(names, n)
	}
	sort.Strings(names)
	var decl strings.Builder
	var vars []*Term
	for _, n := range names {
		v := p.vars[n]
		vars = append(vars, v)
		fmt.Fprintf(&decl, "(declare-const %s %s)\n", n, sortStr(v.S, v.W))
	}
	var as []string
	for _, a := range asserts {
		as = append(as, "(assert "+p.expr(a)+")\n")
	}
	return decl.String() + p.sb.String() + strings.Join(as, ""), vars
}

func (t *Term) String() string {
	p := &smtPrinter{refs: map[*Term]int{}, names: map[*Term]string{}, vars: map[string]*Term{}}
	s := p.expr(t)
	if len(s) > 300 {
		s = s[:300] + "…"
	}
	return s
}

// ---------------- Go operators on terms ----------------

func basicOf(t types.Type) *types.Basic { b, _ := t.Underlying().(*types.Basic); return b }

func intWidth(b *types.Basic) (int, bool) { // width, signed
	switch b.Kind() {
	case types.Int8:
		return 8, true
	case types.Int16:
		return 16, true
	case types.Int32, types.UntypedRune:
		return 32, true
	case types.Int, types.Int64, types.UntypedInt:
		return 64, true
	case types.Uint8:
		return 8, false
	case types.Uint16:
		return 16, false
	case types.Uint32:
		return 32, false
	case types.Uint, types.Uint64, types.Uintptr:
		return 64, false
	}
	return 0, false
}
func isFloatB(b *types.Basic) bool { return b != nil && b.Info()&types.IsFloat != 0 }
func isIntB(b *types.Basic) bool   { return b != nil && b.Info()&types.IsInteger != 0 }
func isBoolB(b *types.Basic) bool  { return b != nil && b.Info()&types.IsBoolean != 0 }
func isStrB(b *types.Basic) bool   { return b != nil && b.Info()&types.IsString != 0 }
func fpW(b *types.Basic) int {
	if b.Kind() == types.Float32 {
		return 32
	}
	return 64
}

// termBinop implements Go binary operators on scalar terms; t is the operand type.
func termBinop(op token.Token, x, y *Term, t types.Type) *Term {
	if r, ok := fdApply2(x, y, func(a, b *Term) *Term { return termBinop(op, a, b, t) }); ok {
		return r
	}
	b := basicOf(t)
	switch x.S {
	case SBool:
		switch op {
		case token.EQL:
			return eqT(x, y)
		case token.NEQ:
			return notT(eqT(x, y))
		case token.LAND, token.AND:
			return andT(x, y)
		case token.LOR, token.OR:
			return orT(x, y)
		}
	case SFP:
		switch op {
		case token.EQL:
			return mk(OFpEq, 0, x, y)
		case token.NEQ:
			return notT(mk(OFpEq, 0, x, y))
		case token.LSS:
			return mk(OFpLt, 0, x, y)
		case token.LEQ:
			return mk(OFpLe, 0, x, y)
		case token.GTR:
			return mk(OFpLt, 0, y, x)
		case token.GEQ:
			return mk(OFpLe, 0, y, x)
		case token.ADD:
			return mk(OFpAdd, 0, x, y)
		case token.SUB:
			return mk(OFpSub, 0, x, y)
		case token.MUL:
			return mk(OFpMul, 0, x, y)
		case token.QUO:
			return mk(OFpDiv, 0, x, y)
		}
	case SBV:
		_, signed := intWidth(b)
		w := x.W
		if op == token.SHL || op == token.SHR {
			if y.W != w { // shift count of another width
				if y.W < w {
					y = mk(OZeroExt, w, y)
				} else {
					// saturate: any count >= w behaves the same
					big := mk(OBvUle, 0, cBV(uint64(w), y.W), y)
					y = iteT(big, cBV(uint64(w), w), mk(OExtract, w, y))
				}
			}
		}
		switch op {
		case token.EQL:
			return eqT(x, y)
		case token.NEQ:
			return notT(eqT(x, y))
		case token.LSS:
			if signed {
				return mk(OBvSlt, 0, x, y)
			}
			return mk(OBvUlt, 0, x, y)
		case token.LEQ:
			if signed {
				return mk(OBvSle, 0, x, y)
			}
			return mk(OBvUle, 0, x, y)
		case token.GTR:
			if signed {
				return mk(OBvSlt, 0, y, x)
			}
			return mk(OBvUlt, 0, y, x)
		case token.GEQ:
			if signed {
				return mk(OBvSle, 0, y, x)
			}
			return mk(OBvUle, 0, y, x)
		case token.ADD:
			return mk(OBvAdd, 0, x, y)
		case token.SUB:
			return mk(OBvSub, 0, x, y)
		case token.MUL:
			return mk(OBvMul, 0, x, y)
		case token.AND:
			return mk(OBvAnd, 0, x, y)
		case token.OR:
			return mk(OBvOr, 0, x, y)
		case token.XOR:
			return mk(OBvXor, 0, x, y)
		case token.AND_NOT:
			return mk(OBvAnd, 0, x, mk(OBvNot, 0, y))
		case token.SHL:
			return mk(OBvShl, 0, x, y)
		case token.SHR:
			if signed {
				return mk(OBvAshr, 0, x, y)
			}
			return mk(OBvLshr, 0, x, y)
		case token.QUO: // symbolic divisor: the caller (exec.binop) forks on zero first
			if signed {
				return mk(OBvSDiv, 0, x, y)
			}
			return mk(OBvUDiv, 0, x, y)
		case token.REM:
			if signed {
				return mk(OBvSRem, 0, x, y)
			}
			return mk(OBvURem, 0, x, y)
		}
	}
	panic(abort("binop " + op.String() + " on " + t.String()))
}

// termConvert implements numeric conversions with Go-on-amd64 semantics.
func termConvert(x *Term, from, to types.Type) *Term {
	if r, ok := fdApply1(x, func(a *Term) *Term { return termConvert(a, from, to) }); ok {
		return r
	}
	fb, tb := basicOf(from), basicOf(to)
	switch {
	case isIntB(fb) && isIntB(tb):
		fw, fs := intWidth(fb)
		tw, _ := intWidth(tb)
		switch {
		case tw == fw:
			return x
		case tw < fw:
			return mk(OExtract, tw, x)
		case fs:
			return mk(OSignExt, tw, x)
		default:
			return mk(OZeroExt, tw, x)
		}
	case isIntB(fb) && isFloatB(tb):
		_, fs := intWidth(fb)
		if fs {
			return mk(OSbvToFp, fpW(tb), x)
		}
		return mk(OUbvToFp, fpW(tb), x)
	case isFloatB(fb) && isIntB(tb):
		tw, ts := intWidth(tb)
		if x.conc() {
			f := x.f()
			// Go on amd64: CVTTSD2SQ (64-bit) then truncate for narrower types
			if ts || tw < 64 {
				return cBV(uint64(int64(f)), tw)
			}
			return cBV(uint64(f), tw)
		}
		// in range: truncation toward zero; out of range/NaN: 0x8000… (truncated to tw bits)
		lim := math.Pow(2, 63)
		if ts || tw < 64 {
			inr := andT(notT(mk(OFpIsNaN, 0, x)), andT(mk(OFpLt, 0, x, cFP(lim, x.W)), mk(OFpLe, 0, cFP(-lim, x.W), x)))
			r64 := iteT(inr, &Term{Op: OFpToSbv, S: SBV, W: 64, A: []*Term{x}}, cBV(1<<63, 64))
			if tw < 64 {
				return mk(OExtract, tw, r64)
			}
			return r64
		}
		// uint64(f): for f < 2^63 as signed; else f-2^63 path
		neg := mk(OFpLt, 0, x, cFP(lim, x.W))
		lo := iteT(andT(notT(mk(OFpIsNaN, 0, x)), mk(OFpLe, 0, cFP(-lim, x.W), x)), &Term{Op: OFpToSbv, S: SBV, W: 64, A: []*Term{x}}, cBV(1<<63, 64))
		hiIn := mk(OFpLt, 0, x, cFP(2*lim, x.W))
		hi := iteT(hiIn, &Term{Op: OFpToUbv, S: SBV, W: 64, A: []*Term{x}}, cBV(1<<63, 64))
		return iteT(orT(neg, mk(OFpIsNaN, 0, x)), lo, hi)
	case isFloatB(fb) && isFloatB(tb):
		w := fpW(tb)
		if w == x.W {
			return x
		}
		return mk(OFpToFp, w, x)
	}
	panic(abort("convert " + from.String() + " -> " + to.String()))
}
