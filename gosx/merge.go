package main

import (
	"golang.org/x/tools/go/ssa"
)

// ---------- optimistic merging of pure scalar functions (if-conversion) ----------
//
// A statically pure function (no stores, allocations, defers, panics; pure callees only) that
// returns one scalar and is called with symbolic arguments is executed on all its paths
// without the solver and its results are merged into one ite-term.

type mergeAbort struct{ why string }

type mergeCtx struct {
	decisions []bool
	pos       int
	pc        *Term
	work      [][]bool
	paths     int
	region    bool
	cells     map[*Value]bool
}

const maxMergePaths = 256

func (e *Exec) mergeBranch(c *Term) bool {
	m := e.merge
	var take bool
	if m.pos < len(m.decisions) {
		take = m.decisions[m.pos]
	} else {
		alt := append(append([]bool{}, m.decisions...), false)
		m.work = append(m.work, alt)
		take = true
		m.decisions = append(m.decisions, take)
	}
	m.pos++
	if take {
		m.pc = andT(m.pc, c)
	} else {
		m.pc = andT(m.pc, notT(c))
	}
	return take
}

func (r *harnessRun) isPure(fn *ssa.Function) bool {
	r.pureMu.Lock()
	defer r.pureMu.Unlock()
	return r.isPureLocked(fn)
}

func (r *harnessRun) isPureLocked(fn *ssa.Function) bool {
	if v, ok := r.pure[fn]; ok {
		return v
	}
	r.pure[fn] = false // recursion => not pure
	if _, isExt := externals[fn.String()]; isExt || fn.Blocks == nil {
		ok := pureExterns[fn.String()]
		r.pure[fn] = ok
		return ok
	}
	for _, b := range fn.Blocks {
		for _, ins := range b.Instrs {
			switch ins := ins.(type) {
			case *ssa.Store, *ssa.MapUpdate, *ssa.Defer, *ssa.Go, *ssa.Panic, *ssa.Send, *ssa.Select, *ssa.MakeChan, *ssa.RunDefers, *ssa.Alloc, *ssa.MakeMap, *ssa.MakeSlice, *ssa.MakeClosure, *ssa.Range, *ssa.Lookup, *ssa.IndexAddr, *ssa.Index, *ssa.TypeAssert:
				return false
			case *ssa.BinOp:
				_ = ins
			case *ssa.Call:
				callee := ins.Call.StaticCallee()
				if callee == nil {
					if _, isB := ins.Call.Value.(*ssa.Builtin); isB && ins.Call.Value.Name() == "len" {
						continue
					}
					return false
				}
				if !r.isPureLocked(callee) {
					return false
				}
			}
		}
	}
	r.pure[fn] = true
	return true
}

var pureExterns = map[string]bool{
	"math.Abs": true, "math.IsNaN": true, "math.IsInf": true, "math.Min": true, "math.Trunc": true,
}

func hasSym(args []Value) bool {
	for _, a := range args {
		if t, ok := a.(*Term); ok && !t.conc() {
			return true
		}
	}
	return false
}

func (e *Exec) summarize(caller *frame, fn *ssa.Function, args []Value) (res Value, ok bool) {
	saved := e.merge
	savedSteps := e.steps
	defer func() {
		e.merge = saved
		if r := recover(); r != nil {
			switch r.(type) {
			case mergeAbort, goPanic:
				res, ok = nil, false
				e.steps = savedSteps
			default:
				panic(r)
			}
		}
	}()
	ctx := &mergeCtx{work: [][]bool{{}}}
	type pr struct {
		pc *Term
		v  *Term
	}
	var results []pr
	for len(ctx.work) > 0 {
		d := ctx.work[len(ctx.work)-1]
		ctx.work = ctx.work[:len(ctx.work)-1]
		ctx.decisions, ctx.pos, ctx.pc = d, 0, tTrue
		ctx.paths++
		if ctx.paths > maxMergePaths {
			panic(mergeAbort{"too many paths"})
		}
		e.merge = ctx
		v := e.callSSAraw(caller, fn, args, nil)
		t, isT := v.(*Term)
		if !isT {
			panic(mergeAbort{"non-scalar result"})
		}
		results = append(results, pr{ctx.pc, t})
	}
	acc := results[len(results)-1].v
	for i := len(results) - 2; i >= 0; i-- {
		acc = iteT(results[i].pc, results[i].v, acc)
	}
	e.run.noteSummary(len(results))
	return acc, true
}

// ---------- region merging (if-conversion of effect-free diamonds) ----------
//
// At an If on a symbolic condition whose region up to the immediate post-dominator J is free of
// effects, all paths of the region are executed without the solver (effects forbidden; any
// store to a pre-existing cell, allocation that could escape through a store, defer, panic or
// impure intrinsic aborts the attempt and the engine forks as usual) and the values reaching
// the phis of J are merged into ite-terms.

// ipdom returns the immediate post-dominator of b in its function (nil: the virtual exit).
func (r *harnessRun) ipdom(b *ssa.BasicBlock) *ssa.BasicBlock {
	fn := b.Parent()
	r.pureMu.Lock()
	defer r.pureMu.Unlock()
	if r.pdom == nil {
		r.pdom = map[*ssa.Function][]*ssa.BasicBlock{}
	}
	tab, ok := r.pdom[fn]
	if !ok {
		tab = computeIpdom(fn)
		r.pdom[fn] = tab
	}
	return tab[b.Index]
}

func computeIpdom(fn *ssa.Function) []*ssa.BasicBlock {
	n := len(fn.Blocks)
	// pdom sets as bitsets over n+1 nodes (n = virtual exit)
	words := (n + 1 + 63) / 64
	full := make([]uint64, words)
	for i := 0; i <= n; i++ {
		full[i/64] |= 1 << uint(i%64)
	}
	sets := make([][]uint64, n+1)
	for i := 0; i < n; i++ {
		sets[i] = append([]uint64{}, full...)
	}
	sets[n] = make([]uint64, words)
	sets[n][n/64] |= 1 << uint(n%64)
	succs := func(i int) []int {
		b := fn.Blocks[i]
		if len(b.Succs) == 0 {
			return []int{n}
		}
		var out []int
		for _, s := range b.Succs {
			out = append(out, s.Index)
		}
		return out
	}
	for changed := true; changed; {
		changed = false
		for i := n - 1; i >= 0; i-- {
			nw := append([]uint64{}, full...)
			for _, s := range succs(i) {
				for w := range nw {
					nw[w] &= sets[s][w]
				}
			}
			nw[i/64] |= 1 << uint(i%64)
			for w := range nw {
				if nw[w] != sets[i][w] {
					changed = true
				}
			}
			sets[i] = nw
		}
	}
	has := func(set []uint64, i int) bool { return set[i/64]&(1<<uint(i%64)) != 0 }
	count := func(set []uint64) int {
		c := 0
		for i := 0; i <= n; i++ {
			if has(set, i) {
				c++
			}
		}
		return c
	}
	out := make([]*ssa.BasicBlock, n)
	for i := 0; i < n; i++ {
		// the immediate post-dominator is the strict post-dominator with the largest pdom set
		best, bestC := -1, -1
		for j := 0; j <= n; j++ {
			if j != i && has(sets[i], j) {
				if c := count(sets[j]); c > bestC {
					best, bestC = j, c
				}
			}
		}
		if best >= 0 && best < n {
			out[i] = fn.Blocks[best]
		}
	}
	return out
}

// registerCells records every cell of a value allocated inside a merge region (stores to them are allowed).
func (m *mergeCtx) registerCells(p *Value) {
	if m.cells == nil {
		m.cells = map[*Value]bool{}
	}
	w := newWalker()
	w.cell = func(c *Value) { m.cells[c] = true }
	w.seenP[p] = true
	m.cells[p] = true
	w.walkInner(*p)
}

func mergeValues(c *Term, a, b Value) (Value, bool) {
	if ta, ok := a.(*Term); ok {
		if tb, ok := b.(*Term); ok && ta.S == tb.S && ta.W == tb.W {
			return iteT(c, ta, tb), true
		}
		return nil, false
	}
	if sameValue(a, b) {
		return a, true
	}
	if sa, ok := a.(Structure); ok {
		sb, ok := b.(Structure)
		if !ok || len(sa) != len(sb) {
			return nil, false
		}
		out := make(Structure, len(sa))
		for i := range sa {
			v, ok := mergeValues(c, sa[i], sb[i])
			if !ok {
				return nil, false
			}
			out[i] = v
		}
		return out, true
	}
	if ta, ok := a.(Tuple); ok {
		tb, ok := b.(Tuple)
		if !ok || len(ta) != len(tb) {
			return nil, false
		}
		out := make(Tuple, len(ta))
		for i := range ta {
			v, ok := mergeValues(c, ta[i], tb[i])
			if !ok {
				return nil, false
			}
			out[i] = v
		}
		return out, true
	}
	return nil, false
}

// mergeRegion tries to if-convert the region starting at the If that ends fr.block.
func (fr *frame) mergeRegion(cond *Term, j *ssa.BasicBlock) (ok bool) {
	e := fr.e
	start, origPrev := fr.block, fr.prev
	savedSteps := e.steps
	var phis []*ssa.Phi
	for _, instr := range j.Instrs {
		if phi, isPhi := instr.(*ssa.Phi); isPhi {
			phis = append(phis, phi)
		} else {
			break
		}
	}
	type res struct {
		pc   *Term
		vals []Value
	}
	var results []res
	defer func() {
		e.merge = nil
		if r := recover(); r != nil {
			switch r.(type) {
			case mergeAbort, goPanic, staleRead:
				fr.block, fr.prev = start, origPrev
				e.steps = savedSteps
				ok = false
			default:
				panic(r)
			}
		}
	}()
	ctx := &mergeCtx{work: [][]bool{{}}, region: true}
	for len(ctx.work) > 0 {
		d := ctx.work[len(ctx.work)-1]
		ctx.work = ctx.work[:len(ctx.work)-1]
		ctx.decisions, ctx.pos, ctx.pc = d, 0, tTrue
		ctx.paths++
		if ctx.paths > 64 {
			panic(mergeAbort{"too many paths"})
		}
		e.merge = ctx
		take := e.mergeBranch(cond)
		fr.prev = start
		if take {
			fr.block = start.Succs[0]
		} else {
			fr.block = start.Succs[1]
		}
		guard := 0
		for fr.block != j {
			guard++
			if guard > 200 {
				panic(mergeAbort{"region too long"})
			}
			fr.runBlockMerge()
		}
		idx := -1
		for i, p := range j.Preds {
			if p == fr.prev {
				idx = i
			}
		}
		vals := make([]Value, len(phis))
		for k, phi := range phis {
			vals[k] = fr.get(phi.Edges[idx])
		}
		results = append(results, res{ctx.pc, vals})
	}
	e.merge = nil
	merged := make([]Value, len(phis))
	for k := range phis {
		acc := results[len(results)-1].vals[k]
		for i := len(results) - 2; i >= 0; i-- {
			v, okm := mergeValues(results[i].pc, results[i].vals[k], acc)
			if !okm {
				panic(mergeAbort{"values of different shape reach the join"})
			}
			acc = v
		}
		merged[k] = acc
	}
	for k, phi := range phis {
		fr.set(phi, merged[k])
	}
	fr.prev, fr.block = start, j
	fr.skipPhis = true
	e.run.noteSummary(len(results))
	return true
}

// runBlockMerge executes one basic block of the region being merged.
func (fr *frame) runBlockMerge() {
	fr.executePhis()
	for _, instr := range fr.block.Instrs {
		if _, ok := instr.(*ssa.Phi); ok {
			continue
		}
		fr.e.steps++
		switch fr.visit(instr) {
		case kReturn:
			panic(mergeAbort{"return inside region"})
		case kJump:
			return
		}
	}
}
