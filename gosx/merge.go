package main

import (
	"golang.org/x/tools/go/ssa"
)

// ---------- optimistic merging of pure scalar functions (if-conversion) ----------
//
// A statically pure function (no stores, allocations, defers, panics; pure callees only) that
// returns one scalar and is called with symbolic arguments is executed on all its paths
// without the solver and its results are merged into one ite-term.

type mergeAbort struct{ why string }

type mergeCtx struct {
	decisions []bool
	pos       int
	pc        *Term
	work      [][]bool
	paths     int
}

const maxMergePaths = 256

func (e *Exec) mergeBranch(c *Term) bool {
	m := e.merge
	var take bool
	if m.pos < len(m.decisions) {
		take = m.decisions[m.pos]
	} else {
		alt := append(append([]bool{}, m.decisions...), false)
		m.work = append(m.work, alt)
		take = true
		m.decisions = append(m.decisions, take)
	}
	m.pos++
	if take {
		m.pc = andT(m.pc, c)
	} else {
		m.pc = andT(m.pc, notT(c))
	}
	return take
}

func (r *harnessRun) isPure(fn *ssa.Function) bool {
	r.pureMu.Lock()
	defer r.pureMu.Unlock()
	return r.isPureLocked(fn)
}

func (r *harnessRun) isPureLocked(fn *ssa.Function) bool {
	if v, ok := r.pure[fn]; ok {
		return v
	}
	r.pure[fn] = false // recursion => not pure
	if _, isExt := externals[fn.String()]; isExt || fn.Blocks == nil {
		ok := pureExterns[fn.String()]
		r.pure[fn] = ok
		return ok
	}
	for _, b := range fn.Blocks {
		for _, ins := range b.Instrs {
			switch ins := ins.(type) {
			case *ssa.Store, *ssa.MapUpdate, *ssa.Defer, *ssa.Go, *ssa.Panic, *ssa.Send, *ssa.Select, *ssa.MakeChan, *ssa.RunDefers, *ssa.Alloc, *ssa.MakeMap, *ssa.MakeSlice, *ssa.MakeClosure, *ssa.Range, *ssa.Lookup, *ssa.IndexAddr, *ssa.Index, *ssa.TypeAssert:
				return false
			case *ssa.BinOp:
				_ = ins
			case *ssa.Call:
				callee := ins.Call.StaticCallee()
				if callee == nil {
					if _, isB := ins.Call.Value.(*ssa.Builtin); isB && ins.Call.Value.Name() == "len" {
						continue
					}
					return false
				}
				if !r.isPureLocked(callee) {
					return false
				}
			}
		}
	}
	r.pure[fn] = true
	return true
}

var pureExterns = map[string]bool{
	"math.Abs": true, "math.IsNaN": true, "math.IsInf": true, "math.Min": true, "math.Trunc": true,
}

func hasSym(args []Value) bool {
	for _, a := range args {
		if t, ok := a.(*Term); ok && !t.conc() {
			return true
		}
	}
	return false
}

func (e *Exec) summarize(caller *frame, fn *ssa.Function, args []Value) (res Value, ok bool) {
	saved := e.merge
	savedSteps := e.steps
	defer func() {
		e.merge = saved
		if r := recover(); r != nil {
			switch r.(type) {
			case mergeAbort, goPanic:
				res, ok = nil, false
				e.steps = savedSteps
			default:
				panic(r)
			}
		}
	}()
	ctx := &mergeCtx{work: [][]bool{{}}}
	type pr struct {
		pc *Term
		v  *Term
	}
	var results []pr
	for len(ctx.work) > 0 {
		d := ctx.work[len(ctx.work)-1]
		ctx.work = ctx.work[:len(ctx.work)-1]
		ctx.decisions, ctx.pos, ctx.pc = d, 0, tTrue
		ctx.paths++
		if ctx.paths > maxMergePaths {
			panic(mergeAbort{"too many paths"})
		}
		e.merge = ctx
		v := e.callSSAraw(caller, fn, args, nil)
		t, isT := v.(*Term)
		if !isT {
			panic(mergeAbort{"non-scalar result"})
		}
		results = append(results, pr{ctx.pc, t})
	}
	acc := results[len(results)-1].v
	for i := len(results) - 2; i >= 0; i-- {
		acc = iteT(results[i].pc, results[i].v, acc)
	}
	e.run.noteSummary(len(results))
	return acc, true
}
