package main

import (
	"fmt"
)

// ---------- cooperative threads + happens-before monitor ----------
//
// Target goroutines run on host goroutines and hand a baton over at scheduling points
// (mutex, atomic, pool, go, exit). The thread to run is a forked choice bound to a solver
// variable; a preemption bound limits the schedule space. A vector-clock monitor flags
// conflicting accesses to maps that are not ordered by happens-before.

type vclock map[int]int

func (v vclock) copy() vclock {
	c := vclock{}
	for k, x := range v {
		c[k] = x
	}
	return c
}
func (v vclock) join(o vclock) {
	for k, x := range o {
		if x > v[k] {
			v[k] = x
		}
	}
}

type thread struct {
	id      int
	resume  chan struct{}
	done    bool
	waiting bool   // in verifJoin
	blocked *Value // mutex it waits for
	vc      vclock
}

type access struct {
	tid, clk int
}
type objHist struct {
	lastWrite *access
	reads     map[int]int
}

type threadState struct {
	threads     []*thread
	cur         *thread
	preemptions int
	bound       int
	locks       map[*Value]int    // mutex -> holder tid (+1), 0 = free
	lockVC      map[*Value]vclock // release clock
	atomVC      map[*Value]vclock
	poolVC      map[*Value]vclock
	hist        map[*Map]*objHist
	cellHist    map[*Value]*objHist
	pending     interface{}
	switches    int
	dead        bool
}

type threadKilled struct{}

func (e *Exec) initThreads() {
	main := &thread{id: 0, resume: make(chan struct{}), vc: vclock{0: 1}}
	e.ts = &threadState{threads: []*thread{main}, cur: main, bound: e.run.cfg.preemptBound, locks: map[*Value]int{}, lockVC: map[*Value]vclock{},
		atomVC: map[*Value]vclock{}, poolVC: map[*Value]vclock{}, hist: map[*Map]*objHist{}, cellHist: map[*Value]*objHist{}}
}

func (e *Exec) runnable() []*thread {
	var out []*thread
	for _, t := range e.ts.threads {
		if t.done || t.waiting {
			continue
		}
		if t.blocked != nil && e.ts.locks[t.blocked] != 0 {
			continue
		}
		out = append(out, t)
	}
	return out
}

// switchTo hands the baton to next and parks the current host goroutine until resumed.
func (e *Exec) switchTo(next *thread) {
	ts := e.ts
	prev := ts.cur
	if next == prev {
		return
	}
	ts.cur = next
	ts.switches++
	next.resume <- struct{}{}
	<-prev.resume
	if ts.dead {
		panic(threadKilled{})
	}
	if ts.pending != nil {
		p := ts.pending
		ts.pending = nil
		panic(p)
	}
}

// yield is called before every visible operation.
func (e *Exec) yield() {
	if e.ts == nil || len(e.ts.threads) == 1 {
		return
	}
	rs := e.runnable()
	curRunnable := false
	for _, t := range rs {
		if t == e.ts.cur {
			curRunnable = true
		}
	}
	if len(rs) == 0 {
		panic(abort("deadlock"))
	}
	if curRunnable && (len(rs) == 1 || e.ts.preemptions >= e.ts.bound) {
		return
	}
	// put the current thread first so that choice 0 = "no preemption"
	if curRunnable {
		for i, t := range rs {
			if t == e.ts.cur {
				rs[0], rs[i] = rs[i], rs[0]
			}
		}
	}
	k := e.choose(len(rs), "sched", "sched")
	if curRunnable && rs[k] != e.ts.cur {
		e.ts.preemptions++
	}
	e.switchTo(rs[k])
}

func (e *Exec) spawn(caller *frame, fn Value, args []Value) {
	if e.ts == nil {
		e.initThreads()
	}
	parent := e.ts.cur
	t := &thread{id: len(e.ts.threads), resume: make(chan struct{}), vc: parent.vc.copy()}
	t.vc[t.id] = 1
	parent.vc[parent.id]++
	e.ts.threads = append(e.ts.threads, t)
	ts := e.ts
	go func() {
		<-t.resume
		if ts.dead {
			return
		}
		defer func() {
			r := recover()
			if ts.dead {
				return
			}
			if r != nil {
				ts.pending = r
			}
			t.done = true
			main := ts.threads[0]
			if ts.pending != nil {
				ts.cur = main
				main.resume <- struct{}{}
				return
			}
			rs := e.runnable()
			if len(rs) == 0 {
				main.waiting = false
				ts.cur = main
				main.resume <- struct{}{}
				return
			}
			next := rs[0]
			ts.cur = next
			next.resume <- struct{}{}
		}()
		e.call(nil, fn, args, 0)
	}()
	e.yield()
}

// killThreads releases host goroutines parked on a path that ended early.
func (e *Exec) killThreads() {
	if e.ts == nil {
		return
	}
	ts := e.ts
	ts.dead = true
	for _, t := range ts.threads[1:] {
		if !t.done {
			t.done = true
			t.resume <- struct{}{} // every non-current thread is parked in a receive
		}
	}
	e.ts = nil
}

func (e *Exec) joinAll() {
	if e.ts == nil {
		return
	}
	main := e.ts.cur
	for {
		alldone := true
		for _, t := range e.ts.threads[1:] {
			if !t.done {
				alldone = false
			}
		}
		if alldone {
			break
		}
		main.waiting = true
		rs := e.runnable()
		if len(rs) == 0 {
			panic(abort("deadlock at join"))
		}
		k := e.choose(len(rs), "sched", "sched")
		e.switchTo(rs[k])
		main.waiting = false
	}
	for _, t := range e.ts.threads[1:] {
		main.vc.join(t.vc)
	}
}

// ---- sync primitives ----

func (e *Exec) mutexLock(m *Value) {
	e.yield()
	if e.ts == nil {
		return
	}
	t := e.ts.cur
	for e.ts.locks[m] != 0 {
		t.blocked = m
		rs := e.runnable()
		if len(rs) == 0 {
			panic(abort("deadlock on mutex"))
		}
		e.switchTo(rs[e.choose(len(rs), "sched", "sched")])
	}
	t.blocked = nil
	e.ts.locks[m] = t.id + 1
	if vc, ok := e.ts.lockVC[m]; ok {
		t.vc.join(vc)
	}
}

func (e *Exec) mutexUnlock(m *Value) {
	if e.ts == nil {
		return
	}
	t := e.ts.cur
	e.ts.lockVC[m] = t.vc.copy()
	t.vc[t.id]++
	e.ts.locks[m] = 0
	e.yield()
}

func (e *Exec) atomicLoad(p *Value) {
	e.yield()
	if e.ts == nil {
		return
	}
	if vc, ok := e.ts.atomVC[p]; ok {
		e.ts.cur.vc.join(vc)
	}
}

func (e *Exec) atomicStore(p *Value) {
	e.yield()
	if e.ts == nil {
		return
	}
	t := e.ts.cur
	if vc, ok := e.ts.atomVC[p]; ok {
		vc.join(t.vc)
	} else {
		e.ts.atomVC[p] = t.vc.copy()
	}
	t.vc[t.id]++
}

// poolHB: Put(x) happens-before the Get that returns x.
func (e *Exec) poolHB(obj *Value, put bool) {
	if e.ts == nil {
		return
	}
	t := e.ts.cur
	if put {
		e.ts.poolVC[obj] = t.vc.copy()
		t.vc[t.id]++
	} else if vc, ok := e.ts.poolVC[obj]; ok {
		t.vc.join(vc)
	}
}

// ---- race monitor ----

func (e *Exec) raceCheck(h *objHist, write bool, what, where string) {
	e.mon[4]++
	t := e.ts.cur
	if w := h.lastWrite; w != nil && w.tid != t.id && w.clk > t.vc[w.tid] {
		e.event("race", "race", fmt.Sprintf("%s of %s by goroutine %d (in %s) is unordered with a write by goroutine %d", rw(write), what, t.id, where, w.tid))
	}
	if write {
		for u, clk := range h.reads {
			if u != t.id && clk > t.vc[u] {
				e.event("race", "race", fmt.Sprintf("write of %s by goroutine %d (in %s) is unordered with a read by goroutine %d", what, t.id, where, u))
			}
		}
		h.lastWrite = &access{t.id, t.vc[t.id]}
	} else {
		h.reads[t.id] = t.vc[t.id]
	}
}

func (e *Exec) mapAccess(m *Map, write bool, where string) {
	if e.ts == nil || m == nil {
		return
	}
	h := e.ts.hist[m]
	if h == nil {
		h = &objHist{reads: map[int]int{}}
		e.ts.hist[m] = h
	}
	e.raceCheck(h, write, "a map", where)
}

// memAccess monitors loads and stores of heap cells while more than one goroutine exists;
// an access to a package-level struct variable as a whole covers its interior cells.
func (e *Exec) memAccess(p *Value, write bool, where string) {
	if e.ts == nil || len(e.ts.threads) < 2 {
		return
	}
	what := "a heap cell"
	if n, ok := e.globalCells[p]; ok {
		what = "package-level variable " + n
		e.yield() // accesses to package-level variables are scheduling points
	}
	e.cellAccess(p, write, what, where)
	for _, c := range e.globalInner[p] {
		e.cellAccess(c, write, what, where)
	}
}

// globalAccess monitors package-level variables (called for loads/stores through *ssa.Global).
func (e *Exec) cellAccess(p *Value, write bool, what, where string) {
	if e.ts == nil || p == nil {
		return
	}
	h := e.ts.cellHist[p]
	if h == nil {
		h = &objHist{reads: map[int]int{}}
		e.ts.cellHist[p] = h
	}
	e.raceCheck(h, write, what, where)
}

func rw(w bool) string {
	if w {
		return "write"
	}
	return "read"
}
