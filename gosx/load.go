package main

import (
	"crypto/sha256"
	"fmt"
	"os"
	"path/filepath"
	"strings"
	"time"

	"golang.org/x/tools/go/packages"
	"golang.org/x/tools/go/ssa"
	"golang.org/x/tools/go/ssa/ssautil"
)

// repoDir is the tree under check: always /repo for the registered commands; GOSX_REPO points the
// engine at a scratch worktree when a seeded change is tried out while /repo itself is in use.
var repoDir = func() string {
	if d := os.Getenv("GOSX_REPO"); d != "" {
		return d
	}
	return "/repo"
}()

var verifDir = "/verif"

type loaded struct {
	prog     *ssa.Program
	validate *ssa.Package
	post     *ssa.Package
	loadSecs float64
	overlay  map[string]string // virtual -> real ("" = generated, content in ovBytes)
	ovBytes  map[string][]byte
}

func fileHash(p string) string {
	b, err := os.ReadFile(p)
	if err != nil {
		return "missing"
	}
	return fmt.Sprintf("%x", sha256.Sum256(b))
}

// harnessOverlay maps /verif/harness/*.go to virtual files inside /repo (nothing is written there).
func harnessOverlay() (map[string][]byte, map[string]string) {
	ov := map[string][]byte{}
	real := map[string]string{}
	add := func(dir, target string) {
		files, _ := filepath.Glob(filepath.Join(dir, "*.go"))
		for _, f := range files {
			b, err := os.ReadFile(f)
			if err != nil {
				continue
			}
			virt := filepath.Join(target, "zz_verif_"+filepath.Base(f))
			ov[virt] = b
			real[virt] = f
		}
	}
	add(filepath.Join(verifDir, "harness"), repoDir)
	add(filepath.Join(verifDir, "harness", "post"), filepath.Join(repoDir, "post"))
	// files shared with package post are replicated there under the other package name
	for _, f := range []string{"api_sym.go", "api_native.go", "ref_draft4.go"} {
		b, err := os.ReadFile(filepath.Join(verifDir, "harness", f))
		if err != nil {
			continue
		}
		c := strings.Replace(string(b), "\npackage validate\n", "\npackage post\n", 1)
		c = strings.Replace(c, "\tresetPools()\n", "", -1)
		virt := filepath.Join(repoDir, "post", "zz_verif_"+f)
		ov[virt] = []byte(c)
		real[virt] = "" // generated: written to a scratch file when a native build needs it
	}
	return ov, real
}

func loadRepo() (*loaded, error) {
	t0 := time.Now()
	ov, real := harnessOverlay()
	cfg := &packages.Config{Mode: packages.LoadAllSyntax, Dir: repoDir,
		Overlay:    ov,
		BuildFlags: []string{"-tags=verif"},
		Env:        append(os.Environ(), "GOFLAGS=-mod=readonly", "GOPROXY=off", "GOSUMDB=off", "GOTOOLCHAIN=local")}
	pkgs, err := packages.Load(cfg, ".", "./post")
	if err != nil {
		return nil, err
	}
	var errs []string
	packages.Visit(pkgs, nil, func(p *packages.Package) {
		for _, e := range p.Errors {
			errs = append(errs, e.Error())
		}
	})
	if len(errs) > 0 {
		if len(errs) > 12 {
			errs = errs[:12]
		}
		return nil, fmt.Errorf("harness does not build against the current tree:\n  %s", strings.Join(errs, "\n  "))
	}
	prog, spkgs := ssautil.AllPackages(pkgs, ssa.InstantiateGenerics)
	prog.Build()
	l := &loaded{prog: prog, loadSecs: time.Since(t0).Seconds(), overlay: real, ovBytes: ov}
	for _, sp := range spkgs {
		if sp == nil {
			continue
		}
		switch sp.Pkg.Path() {
		case "github.com/go-openapi/validate":
			l.validate = sp
		case "github.com/go-openapi/validate/post":
			l.post = sp
		}
	}
	if l.validate == nil {
		return nil, fmt.Errorf("package validate not found")
	}
	return l, nil
}

func (l *loaded) harness(name string) (*ssa.Function, *ssa.Package) {
	if f := l.validate.Func(name); f != nil {
		return f, l.validate
	}
	if l.post != nil {
		if f := l.post.Func(name); f != nil {
			return f, l.post
		}
	}
	return nil, nil
}
