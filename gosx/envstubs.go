package main

import (
	"go/types"
	"golang.org/x/tools/go/ssa"
	"strings"
)

// ---------- contract stubs for the dependency packages (DESIGN 2.4 tier 3) ----------

type analysisModel struct {
	ops *Map // method -> path -> *spec.Operation
	sw  *Value
}

func (e *Exec) specType(name string) types.Type {
	return e.prog.ImportedPackage("github.com/go-openapi/spec").Type(name).Type()
}

func (e *Exec) envIntrinsic(caller *frame, name string, args []Value) (Value, bool) {
	switch name {
	case "verifNewDocument":
		// environment constructor: a loads.Document whose Spec() is the given swagger object
		lt := e.prog.ImportedPackage("github.com/go-openapi/loads").Type("Document").Type()
		z := zero(lt)
		st := lt.Underlying().(*types.Struct)
		z.(Structure)[fieldIndex(st, "spec")] = args[0]
		if len(args) > 1 {
			z.(Structure)[fieldIndex(st, "origSpec")] = args[0]
		}
		e.run.noteStub("loads.Document: harness-built, Spec() returns the harness's *spec.Swagger")
		if sw, ok := args[0].(*Value); ok {
			e.lastSwagger = sw
		}
		return &z, true
	case "verifNewAnalyzer":
		at := e.prog.ImportedPackage("github.com/go-openapi/analysis").Type("Spec").Type()
		z := zero(at)
		p := &z
		if e.analyzers == nil {
			e.analyzers = map[*Value]*analysisModel{}
		}
		am := &analysisModel{ops: args[0].(*Map), sw: e.lastSwagger}
		e.analyzers[p] = am
		e.lastAnalyzer = p
		if e.lastSwagger != nil { // the analyser registered right after a document is that document's
			if e.swAnalyzer == nil {
				e.swAnalyzer = map[*Value]*Value{}
			}
			e.swAnalyzer[e.lastSwagger] = p
			e.lastSwagger = nil
		}
		e.run.noteStub("analysis.Spec: operations index supplied by the harness (Operations, OperationFor, SafeParamsFor, ParamsFor, OperationIDs)")
		return p, true
	}
	return nil, false
}

func isNilFunc(v Value) bool {
	switch f := v.(type) {
	case nil:
		return true
	case *Closure:
		return f == nil
	case *ssa.Function:
		return f == nil
	}
	return false
}

// pathItemParams: the parameters declared by the path item of the document (nil when there is none)
func (e *Exec) pathItemParams(sw *Value, path Value) []Value {
	if sw == nil {
		return nil
	}
	swT := e.specType("Swagger").Underlying().(*types.Struct)
	paths, _ := fieldByName((*sw).(Structure), swT, "SwaggerProps", "Paths").(*Value)
	if paths == nil {
		return nil
	}
	pt := e.specType("Paths").Underlying().(*types.Struct)
	byPath, _ := (*paths).(Structure)[fieldIndex(pt, "Paths")].(*Map)
	i := byPath.find(path)
	if i < 0 {
		return nil
	}
	pit := e.specType("PathItem").Underlying().(*types.Struct)
	ps, _ := fieldByName(byPath.Vals[i].(Structure), pit, "PathItemProps", "Parameters").([]Value)
	return ps
}

// sharedParam resolves #/parameters/X in the document
func (e *Exec) sharedParam(sw *Value, toks []string) (Structure, bool) {
	if sw == nil || len(toks) != 2 || toks[0] != "parameters" {
		return nil, false
	}
	swT := e.specType("Swagger").Underlying().(*types.Struct)
	shared, _ := fieldByName((*sw).(Structure), swT, "SwaggerProps", "Parameters").(*Map)
	if i := shared.find(toks[1]); i >= 0 {
		return shared.Vals[i].(Structure), true
	}
	return nil, false
}

func (e *Exec) opParams(op *Value) []Value {
	opT := e.specType("Operation").Underlying().(*types.Struct)
	return fieldByName((*op).(Structure), opT, "OperationProps", "Parameters").([]Value)
}

func registerEnvStubs() {
	an := "(*github.com/go-openapi/analysis.Spec)."
	externals[an+"Operations"] = func(e *Exec, c *frame, a []Value) Value {
		return e.analyzers[a[0].(*Value)].ops
	}
	externals[an+"OperationFor"] = func(e *Exec, c *frame, a []Value) Value {
		ops := e.analyzers[a[0].(*Value)].ops
		if i := ops.find(a[1]); i >= 0 {
			byPath := ops.Vals[i].(*Map)
			if j := byPath.find(a[2]); j >= 0 {
				return Tuple{byPath.Vals[j], tTrue}
			}
		}
		return Tuple{(*Value)(nil), tFalse}
	}
	paramsFor := func(e *Exec, c *frame, a []Value) Value {
		// contract: parameters of the (reference-free) operation keyed "in#name"
		ops := e.analyzers[a[0].(*Value)].ops
		e.mapSeq++
		parT := e.specType("Parameter")
		out := &Map{KT: types.Typ[types.String], VT: parT, id: e.mapSeq}
		if i := ops.find(a[1]); i >= 0 {
			byPath := ops.Vals[i].(*Map)
			if j := byPath.find(a[2]); j >= 0 {
				pst := parT.Underlying().(*types.Struct)
				// contract (analysis.paramsAsMap): the parameters of the path item come first; one that is a
				// $ref resolves into the document's parameters section or is handed to the callback with an
				// error - and the analyser panics when there is no callback
				for _, pr := range e.pathItemParams(e.analyzers[a[0].(*Value)].sw, a[2]) {
					ps := pr.(Structure)
					rt := e.specType("Ref").Underlying().(*types.Struct)
					toks := e.refTokens(fieldByName(ps, pst, "Refable", "Ref").(Structure)[fieldIndex(rt, "Ref")].(Structure))
					if len(toks) > 0 {
						resolved, ok := e.sharedParam(e.analyzers[a[0].(*Value)].sw, toks)
						if !ok {
							msg := "invalid reference: \"#/" + strings.Join(toks, "/") + "\""
							if len(a) < 4 || isNilFunc(a[3]) {
								panic(goPanic{msg})
							}
							goOn := e.call(c, a[3], []Value{copyVal(pr), e.newError(msg)}, 0).(*Term)
							if e.branch(goOn) {
								continue
							}
							break
						}
						ps = resolved
					}
					in := e.strOf(fieldByName(ps, pst, "ParamProps", "In"))
					e.mapSet(out, in+"#"+e.strOf(fieldByName(ps, pst, "ParamProps", "Name")), copyVal(ps))
				}
				for _, pr := range e.opParams(byPath.Vals[j].(*Value)) {
					in := e.strOf(fieldByName(pr.(Structure), pst, "ParamProps", "In"))
					nm := fieldByName(pr.(Structure), pst, "ParamProps", "Name")
					var key Value
					if bs, ok := nm.(BStr); ok {
						key = append(toBStr(in+"#"), bs...)
					} else {
						key = in + "#" + e.strOf(nm)
					}
					e.mapSet(out, key, copyVal(pr))
				}
			}
		}
		return out
	}
	externals["github.com/go-openapi/analysis.New"] = func(e *Exec, c *frame, a []Value) Value {
		// contract: the analyser of the harness's document is the one the harness registered
		if sw, ok := a[0].(*Value); ok {
			if p, ok := e.swAnalyzer[sw]; ok {
				return p
			}
		}
		if e.lastAnalyzer == nil {
			panic(abort("analysis.New without a harness-registered analyser model"))
		}
		return e.lastAnalyzer
	}
	for _, n := range []string{"AllRefs", "AllParameterReferences", "AllResponseReferences", "AllDefinitionReferences"} {
		n := n
		externals[an+n] = func(e *Exec, c *frame, a []Value) Value {
			e.run.noteStub("analysis.Spec." + n + ": empty (reference-free document)")
			return []Value{}
		}
	}
	externals["(*github.com/go-openapi/loads.Document).Expanded"] = func(e *Exec, c *frame, a []Value) Value {
		// contract: a deep copy of the (reference-free) document, with its own analyser over the copy
		e.run.noteStub("loads.Document.Expanded: a deep copy of the reference-free document, analysed by a copy of the harness's operations index")
		doc := a[0].(*Value)
		lt := e.prog.ImportedPackage("github.com/go-openapi/loads").Type("Document").Type()
		st := lt.Underlying().(*types.Struct)
		sw, _ := (*doc).(Structure)[fieldIndex(st, "spec")].(*Value)
		am, ok := e.analyzers[e.swAnalyzer[sw]]
		if sw == nil || !ok {
			return Tuple{a[0], Iface{}} // no analyser model registered for this document: the document itself
		}
		cl := &cloner{e: e, p: map[*Value]*Value{}, m: map[*Map]*Map{}}
		nd := cl.clone(*doc)
		nsw := nd.(Structure)[fieldIndex(st, "spec")].(*Value)
		at := e.prog.ImportedPackage("github.com/go-openapi/analysis").Type("Spec").Type()
		az := zero(at)
		ap := &az
		e.analyzers[ap] = &analysisModel{ops: cl.clone(am.ops).(*Map), sw: nsw}
		e.swAnalyzer[nsw] = ap
		nd.(Structure)[fieldIndex(st, "Analyzer")] = ap
		return Tuple{&nd, Iface{}}
	}
	externals["encoding/json.Unmarshal"] = func(e *Exec, c *frame, a []Value) Value {
		e.run.noteStub("json.Unmarshal(doc.Raw()): yields an empty JSON object (the harness's Swagger schema is the empty schema)")
		dst := a[1].(Iface).V.(*Value)
		e.mapSeq++
		*dst = Iface{T: types.NewMap(types.Typ[types.String], types.NewInterfaceType(nil, nil)), V: &Map{KT: types.Typ[types.String], VT: types.NewInterfaceType(nil, nil), id: e.mapSeq}}
		return Iface{}
	}
	externals[an+"OperationIDs"] = func(e *Exec, c *frame, a []Value) Value {
		// contract: the ids of all operations (empty ones included), in map order
		ops := e.analyzers[a[0].(*Value)].ops
		out := []Value{}
		opT := e.specType("Operation").Underlying().(*types.Struct)
		itM := e.rangeIter(ops, nil).(*mapIter)
		for {
			t := itM.next(e)
			if !t[0].(*Term).b() {
				break
			}
			itP := e.rangeIter(t[2].(*Map), nil).(*mapIter)
			for {
				u := itP.next(e)
				if !u[0].(*Term).b() {
					break
				}
				op := u[2].(*Value)
				out = append(out, fieldByName((*op).(Structure), opT, "OperationProps", "ID"))
			}
		}
		return out
	}
	externals["github.com/go-openapi/validate.deepCloneSchema"] = func(e *Exec, c *frame, a []Value) Value {
		e.run.noteStub("deepCloneSchema (gob round trip): engine deep copy")
		return Tuple{e.deepCopy(a[0], map[*Value]*Value{}), Iface{}}
	}
	externals["github.com/go-openapi/swag.ToDynamicJSON"] = func(e *Exec, c *frame, a []Value) Value {
		e.mapSeq++
		any := types.NewInterfaceType(nil, nil)
		out := &Map{KT: types.Typ[types.String], VT: any, id: e.mapSeq, noPerm: true}
		if x, ok := a[0].(Iface); ok && x.T != nil && types.Identical(x.T, e.specType("Parameter")) {
			// contract: the JSON object of a parameter holds its non-empty scalar members
			e.run.noteStub("swag.ToDynamicJSON(parameter): the JSON object holding the parameter's non-empty name, in, type, format and true required members, an items object holding its type, an empty schema object (iterated in key order)")
			pst := x.T.Underlying().(*types.Struct)
			ps := x.V.(Structure)
			str := func(emb, f, key string) {
				if v := e.strOf(fieldByName(ps, pst, emb, f)); v != "" {
					e.mapSet(out, key, Iface{T: types.Typ[types.String], V: v})
				}
			}
			str("ParamProps", "Name", "name")
			str("ParamProps", "In", "in")
			str("SimpleSchema", "Type", "type")
			str("SimpleSchema", "Format", "format")
			if r, ok := fieldByName(ps, pst, "ParamProps", "Required").(*Term); ok && r.conc() && r.b() {
				e.mapSet(out, "required", Iface{T: types.Typ[types.Bool], V: tTrue})
			}
			mapT := types.NewMap(types.Typ[types.String], any)
			sub := func(key string, typ string) {
				e.mapSeq++
				m := &Map{KT: types.Typ[types.String], VT: any, id: e.mapSeq, noPerm: true}
				if typ != "" {
					e.mapSet(m, "type", Iface{T: types.Typ[types.String], V: typ})
				}
				e.mapSet(out, key, Iface{T: mapT, V: m})
			}
			if it, ok := fieldByName(ps, pst, "SimpleSchema", "Items").(*Value); ok && it != nil {
				ist := e.specType("Items").Underlying().(*types.Struct)
				sub("items", e.strOf(fieldByName((*it).(Structure), ist, "SimpleSchema", "Type")))
			}
			if sc, ok := fieldByName(ps, pst, "ParamProps", "Schema").(*Value); ok && sc != nil {
				sub("schema", "")
			}
			return Iface{T: types.NewMap(types.Typ[types.String], any), V: out}
		}
		e.run.noteStub("swag.ToDynamicJSON: returns an opaque empty JSON object")
		return Iface{T: types.NewMap(types.Typ[types.String], any), V: out}
	}
	externals[an+"SafeParamsFor"] = paramsFor
	externals[an+"ParamsFor"] = paramsFor
	// contract of spec.ExpandParameterWithRoot on a parameter that is a $ref into #/parameters of the root
	// document: the parameter is dereferenced IN PLACE (the caller's object is overwritten with the shared
	// parameter), an unresolvable reference is an error; anything else is left alone
	externals["github.com/go-openapi/spec.ExpandParameterWithRoot"] = func(e *Exec, c *frame, a []Value) Value {
		param, _ := a[0].(*Value)
		if param == nil {
			return Iface{}
		}
		pst := e.specType("Parameter").Underlying().(*types.Struct)
		rt := e.specType("Ref").Underlying().(*types.Struct)
		toks := e.refTokens(fieldByName((*param).(Structure), pst, "Refable", "Ref").(Structure)[fieldIndex(rt, "Ref")].(Structure))
		if len(toks) == 0 {
			e.run.noteStub("spec.ExpandParameterWithRoot: no-op returning nil on a reference-free argument")
			return Iface{}
		}
		e.run.noteStub("spec.ExpandParameterWithRoot: a $ref into #/parameters is dereferenced in place; an unresolvable one is an error")
		var sw *Value
		if root, ok := a[1].(Iface); ok {
			sw, _ = root.V.(*Value)
		}
		resolved, ok := e.sharedParam(sw, toks)
		if !ok {
			return e.newError("object has no key \"" + toks[len(toks)-1] + "\"")
		}
		e.storeMonitored(param, copyVal(resolved))
		return Iface{}
	}
	for _, n := range []string{"ExpandResponseWithRoot", "ExpandParameter", "ExpandResponse", "ExpandSchema", "ExpandSchemaWithBasePath"} {
		n := n
		externals["github.com/go-openapi/spec."+n] = func(e *Exec, c *frame, a []Value) Value {
			e.run.noteStub("spec." + n + ": no-op returning nil on a reference-free argument")
			return Iface{}
		}
	}
}

// ---------- context.Context model: a chain of (key, value) nodes ----------

type ctxNode struct {
	parent   *ctxNode
	key, val Iface
}

type ctxMethod struct {
	n    *ctxNode
	name string
}

var ctxMarker = types.NewNamed(types.NewTypeName(0, nil, "ctx", nil), types.NewStruct(nil, nil), nil)

func ctxIface(n *ctxNode) Value { return Iface{T: ctxMarker, V: n} }

func (e *Exec) callCtxMethod(m *ctxMethod, args []Value) Value {
	switch m.name {
	case "Value":
		k := args[0].(Iface)
		for n := m.n; n != nil; n = n.parent {
			if n.key.T == nil {
				continue
			}
			eq := equalsT(nil, n.key, k)
			if !eq.conc() {
				panic(abort("symbolic context key"))
			}
			if eq.b() {
				return n.val
			}
		}
		return Iface{}
	case "Err":
		return Iface{}
	}
	panic(abort("context method " + m.name))
}

// ---------- local JSON references: "#/definitions/X" ----------

func (e *Exec) refTokens(ref Structure) []string {
	// jsonreference.Ref{referenceURL, referencePointer{referenceTokens}, ...}
	jt := e.prog.ImportedPackage("github.com/go-openapi/jsonreference").Type("Ref").Type().Underlying().(*types.Struct)
	ptr := ref[fieldIndex(jt, "referencePointer")].(Structure)
	toks, _ := ptr[0].([]Value)
	var out []string
	for _, t := range toks {
		out = append(out, e.strOf(t))
	}
	return out
}

func registerRefStubs() {
	externals["github.com/go-openapi/jsonreference.New"] = func(e *Exec, c *frame, a []Value) Value {
		e.run.noteStub("jsonreference.New: local fragment references only (#/a/b): no URL, pointer tokens split on '/'")
		str := concStr(e, a[0])
		jt := e.prog.ImportedPackage("github.com/go-openapi/jsonreference").Type("Ref").Type()
		z := zero(jt).(Structure)
		st := jt.Underlying().(*types.Struct)
		if str == "" {
			return Tuple{z, Iface{}}
		}
		if !strings.HasPrefix(str, "#") {
			panic(abort("jsonreference.New: only local fragment references are modelled: " + str))
		}
		var toks []Value
		for _, t := range strings.Split(strings.TrimPrefix(str, "#"), "/")[1:] {
			toks = append(toks, t)
		}
		ptr := z[fieldIndex(st, "referencePointer")].(Structure)
		ptr[0] = toks
		z[fieldIndex(st, "HasFragmentOnly")] = tTrue
		return Tuple{z, Iface{}}
	}
	resolve := func(e *Exec, c *frame, a []Value) Value {
		e.run.noteStub("spec.ResolveRef: returns the definition named by a local #/definitions/X reference, or an error if it is absent")
		root, ok := a[0].(Iface).V.(*Value)
		refp := a[1].(*Value)
		if !ok || root == nil || refp == nil {
			return Tuple{(*Value)(nil), e.newError("cannot resolve reference")}
		}
		rt := e.specType("Ref").Underlying().(*types.Struct)
		toks := e.refTokens((*refp).(Structure)[fieldIndex(rt, "Ref")].(Structure))
		swT := e.specType("Swagger").Underlying().(*types.Struct)
		if len(toks) == 2 && toks[0] == "definitions" {
			defs, _ := fieldByName((*root).(Structure), swT, "SwaggerProps", "Definitions").(*Map)
			if i := defs.find(toks[1]); i >= 0 {
				v := copyVal(defs.Vals[i])
				return Tuple{&v, Iface{}}
			}
		}
		return Tuple{(*Value)(nil), e.newError("object has no key \"" + strings.Join(toks, "/") + "\"")}
	}
	externals["github.com/go-openapi/spec.ResolveRef"] = resolve
	externals["github.com/go-openapi/spec.ResolveRefWithBase"] = resolve
}

func registerCtxStubs() {
	externals["context.Background"] = func(e *Exec, c *frame, a []Value) Value { return ctxIface(&ctxNode{}) }
	externals["context.TODO"] = externals["context.Background"]
	externals["context.WithValue"] = func(e *Exec, c *frame, a []Value) Value {
		parent, _ := a[0].(Iface).V.(*ctxNode)
		return ctxIface(&ctxNode{parent: parent, key: a[1].(Iface), val: a[2].(Iface)})
	}
}

// deepCopy clones a value graph (pointers, slices, maps followed; scalars shared).
func (e *Exec) deepCopy(v Value, seen map[*Value]*Value) Value {
	switch x := v.(type) {
	case Structure:
		c := make(Structure, len(x))
		for i := range x {
			c[i] = e.deepCopy(x[i], seen)
		}
		return c
	case Array:
		c := make(Array, len(x))
		for i := range x {
			c[i] = e.deepCopy(x[i], seen)
		}
		return c
	case *Value:
		if x == nil {
			return x
		}
		if p, ok := seen[x]; ok {
			return p
		}
		var z Value
		p := &z
		seen[x] = p
		*p = e.deepCopy(*x, seen)
		return p
	case []Value:
		if x == nil {
			return x
		}
		c := make([]Value, len(x), cap(x))
		for i := range x {
			c[i] = e.deepCopy(x[i], seen)
		}
		return c
	case *Map:
		if x == nil {
			return x
		}
		e.mapSeq++
		c := &Map{KT: x.KT, VT: x.VT, id: e.mapSeq}
		for i, k := range x.Keys {
			if k != nil {
				c.Keys = append(c.Keys, k)
				c.Vals = append(c.Vals, e.deepCopy(x.Vals[i], seen))
			}
		}
		return c
	case Iface:
		if x.T == nil {
			return x
		}
		return Iface{T: x.T, V: e.deepCopy(x.V, seen)}
	}
	return v
}

// cloner deep-copies a value graph (pointers, maps, slices, aggregates), keeping sharing.
type cloner struct {
	e *Exec
	p map[*Value]*Value
	m map[*Map]*Map
}

func (cl *cloner) clone(v Value) Value {
	switch x := v.(type) {
	case *Value:
		if x == nil {
			return x
		}
		if y, ok := cl.p[x]; ok {
			return y
		}
		ny := new(Value)
		cl.p[x] = ny
		*ny = cl.clone(*x)
		return ny
	case Structure:
		out := make(Structure, len(x))
		for i := range x {
			cl.p[&x[i]] = &out[i]
		}
		for i := range x {
			out[i] = cl.clone(x[i])
		}
		return out
	case Array:
		out := make(Array, len(x))
		for i := range x {
			cl.p[&x[i]] = &out[i]
		}
		for i := range x {
			out[i] = cl.clone(x[i])
		}
		return out
	case []Value:
		if x == nil {
			return x
		}
		out := make([]Value, len(x), cap(x))
		for i := range x {
			cl.p[&x[i]] = &out[i]
		}
		for i := range x {
			out[i] = cl.clone(x[i])
		}
		return out
	case *Map:
		if x == nil {
			return x
		}
		if y, ok := cl.m[x]; ok {
			return y
		}
		cl.e.mapSeq++
		nm := &Map{KT: x.KT, VT: x.VT, id: cl.e.mapSeq}
		cl.m[x] = nm
		nm.Keys = make([]Value, len(x.Keys))
		nm.Vals = make([]Value, len(x.Vals))
		for i := range x.Keys {
			nm.Keys[i] = cl.clone(x.Keys[i])
			nm.Vals[i] = cl.clone(x.Vals[i])
		}
		if x.Conds != nil {
			nm.Conds = append([]*Term{}, x.Conds...)
		}
		return nm
	case Iface:
		if x.T == nil {
			return x
		}
		return Iface{T: x.T, V: cl.clone(x.V)}
	case RValue:
		if x.T == nil {
			return x
		}
		return RValue{T: x.T, V: cl.clone(x.V)}
	case Tuple:
		out := make(Tuple, len(x))
		for i := range x {
			out[i] = cl.clone(x[i])
		}
		return out
	}
	return v
}

// storeMonitored overwrites *addr field by field, telling the frame monitor about every cell.
func (e *Exec) storeMonitored(addr *Value, v Value) {
	if dst, ok := (*addr).(Structure); ok {
		if src, ok := v.(Structure); ok && len(src) == len(dst) {
			for i := range dst {
				e.storeMonitored(&dst[i], src[i])
			}
			return
		}
	}
	e.noteStore(addr, v)
	*addr = v
}
