package main

import (
	"go/types"
)

// ---------- contract stubs for the dependency packages (DESIGN 2.4 tier 3) ----------

type analysisModel struct {
	ops *Map // method -> path -> *spec.Operation
	sw  *Value
}

func (e *Exec) specType(name string) types.Type {
	return e.prog.ImportedPackage("github.com/go-openapi/spec").Type(name).Type()
}

func (e *Exec) envIntrinsic(caller *frame, name string, args []Value) (Value, bool) {
	switch name {
	case "verifNewDocument":
		// environment constructor: a loads.Document whose Spec() is the given swagger object
		lt := e.prog.ImportedPackage("github.com/go-openapi/loads").Type("Document").Type()
		z := zero(lt)
		st := lt.Underlying().(*types.Struct)
		z.(Structure)[fieldIndex(st, "spec")] = args[0]
		if len(args) > 1 {
			z.(Structure)[fieldIndex(st, "origSpec")] = args[0]
		}
		e.run.noteStub("loads.Document: harness-built, Spec() returns the harness's *spec.Swagger")
		return &z, true
	case "verifNewAnalyzer":
		at := e.prog.ImportedPackage("github.com/go-openapi/analysis").Type("Spec").Type()
		z := zero(at)
		p := &z
		if e.analyzers == nil {
			e.analyzers = map[*Value]*analysisModel{}
		}
		am := &analysisModel{ops: args[0].(*Map)}
		e.analyzers[p] = am
		e.run.noteStub("analysis.Spec: operations index supplied by the harness (Operations, OperationFor, SafeParamsFor, ParamsFor, OperationIDs)")
		return p, true
	}
	return nil, false
}

func (e *Exec) opParams(op *Value) []Value {
	opT := e.specType("Operation").Underlying().(*types.Struct)
	return fieldByName((*op).(Structure), opT, "OperationProps", "Parameters").([]Value)
}

func registerEnvStubs() {
	an := "(*github.com/go-openapi/analysis.Spec)."
	externals[an+"Operations"] = func(e *Exec, c *frame, a []Value) Value {
		return e.analyzers[a[0].(*Value)].ops
	}
	externals[an+"OperationFor"] = func(e *Exec, c *frame, a []Value) Value {
		ops := e.analyzers[a[0].(*Value)].ops
		if i := ops.find(a[1]); i >= 0 {
			byPath := ops.Vals[i].(*Map)
			if j := byPath.find(a[2]); j >= 0 {
				return Tuple{byPath.Vals[j], tTrue}
			}
		}
		return Tuple{(*Value)(nil), tFalse}
	}
	paramsFor := func(e *Exec, c *frame, a []Value) Value {
		// contract: parameters of the (reference-free) operation keyed "in#name"
		ops := e.analyzers[a[0].(*Value)].ops
		e.mapSeq++
		parT := e.specType("Parameter")
		out := &Map{KT: types.Typ[types.String], VT: parT, id: e.mapSeq}
		if i := ops.find(a[1]); i >= 0 {
			byPath := ops.Vals[i].(*Map)
			if j := byPath.find(a[2]); j >= 0 {
				pst := parT.Underlying().(*types.Struct)
				for _, pr := range e.opParams(byPath.Vals[j].(*Value)) {
					in := e.strOf(fieldByName(pr.(Structure), pst, "ParamProps", "In"))
					nm := fieldByName(pr.(Structure), pst, "ParamProps", "Name")
					var key Value
					if bs, ok := nm.(BStr); ok {
						key = append(toBStr(in+"#"), bs...)
					} else {
						key = in + "#" + e.strOf(nm)
					}
					e.mapSet(out, key, copyVal(pr))
				}
			}
		}
		return out
	}
	externals[an+"SafeParamsFor"] = paramsFor
	externals[an+"ParamsFor"] = paramsFor
	for _, n := range []string{"ExpandParameterWithRoot", "ExpandResponseWithRoot", "ExpandParameter", "ExpandResponse", "ExpandSchema", "ExpandSchemaWithBasePath"} {
		n := n
		externals["github.com/go-openapi/spec."+n] = func(e *Exec, c *frame, a []Value) Value {
			e.run.noteStub("spec." + n + ": no-op returning nil on a reference-free argument")
			return Iface{}
		}
	}
}

// ---------- context.Context model: a chain of (key, value) nodes ----------

type ctxNode struct {
	parent   *ctxNode
	key, val Iface
}

type ctxMethod struct {
	n    *ctxNode
	name string
}

var ctxMarker = types.NewNamed(types.NewTypeName(0, nil, "ctx", nil), types.NewStruct(nil, nil), nil)

func ctxIface(n *ctxNode) Value { return Iface{T: ctxMarker, V: n} }

func (e *Exec) callCtxMethod(m *ctxMethod, args []Value) Value {
	switch m.name {
	case "Value":
		k := args[0].(Iface)
		for n := m.n; n != nil; n = n.parent {
			if n.key.T == nil {
				continue
			}
			eq := equalsT(nil, n.key, k)
			if !eq.conc() {
				panic(abort("symbolic context key"))
			}
			if eq.b() {
				return n.val
			}
		}
		return Iface{}
	case "Err":
		return Iface{}
	}
	panic(abort("context method " + m.name))
}

func registerCtxStubs() {
	externals["context.Background"] = func(e *Exec, c *frame, a []Value) Value { return ctxIface(&ctxNode{}) }
	externals["context.TODO"] = externals["context.Background"]
	externals["context.WithValue"] = func(e *Exec, c *frame, a []Value) Value {
		parent, _ := a[0].(Iface).V.(*ctxNode)
		return ctxIface(&ctxNode{parent: parent, key: a[1].(Iface), val: a[2].(Iface)})
	}
}
