package main

import (
	"bufio"
	"fmt"
	"io"
	"os"
	"os/exec"
	"strconv"
	"strings"
	"sync"
	"sync/atomic"
	"time"
)

// One-shot queries sent to persistent solver processes: every query is preceded by (reset),
// so nothing is kept on an incremental stack (measured: 4-10x faster on FP than push/pop).

type solverProc struct {
	kind string // "z3" | "z3-new" | "cvc5"
	cmd  *exec.Cmd
	in   io.WriteCloser
	out  *bufio.Reader
	dead bool
}

func startSolver(kind string) *solverProc {
	var cmd *exec.Cmd
	switch kind {
	case "cvc5":
		cmd = exec.Command("cvc5", "--lang=smt2", "--incremental", "--produce-models", "-")
	default:
		cmd = exec.Command(kind, "-in")
	}
	in, _ := cmd.StdinPipe()
	out, _ := cmd.StdoutPipe()
	cmd.Stderr = nil
	if err := cmd.Start(); err != nil {
		panic("cannot start solver " + kind + ": " + err.Error())
	}
	return &solverProc{kind: kind, cmd: cmd, in: in, out: bufio.NewReaderSize(out, 1<<16)}
}

func (p *solverProc) kill() {
	if p.dead {
		return
	}
	p.dead = true
	p.in.Close()
	p.cmd.Process.Kill()
	p.cmd.Wait()
}

type SolverStats struct {
	Queries, Sat, Unsat, Unknown, Errors int64
	ByKind                               map[string]int64
	Nanos                                int64
}

var gStats struct {
	sync.Mutex
	queries, sat, unsat, unknown, errs int64
	byKind                             map[string]int64
	nanos                              int64
}

func init() { gStats.byKind = map[string]int64{} }

var smtLogSeq int64

// Solver is owned by one worker.
type Solver struct {
	procs map[string]*solverProc
}

func newSolver() *Solver { return &Solver{procs: map[string]*solverProc{}} }

func (s *Solver) close() {
	for _, p := range s.procs {
		p.kill()
	}
	s.procs = map[string]*solverProc{}
}

func (s *Solver) proc(kind string) *solverProc {
	p := s.procs[kind]
	if p == nil || p.dead {
		p = startSolver(kind)
		s.procs[kind] = p
	}
	return p
}

func hasFP(ts []*Term) bool {
	seen := map[*Term]bool{}
	var walk func(t *Term) bool
	walk = func(t *Term) bool {
		if seen[t] {
			return false
		}
		seen[t] = true
		if t.S == SFP {
			return true
		}
		for _, a := range t.A {
			if walk(a) {
				return true
			}
		}
		return false
	}
	for _, t := range ts {
		if walk(t) {
			return true
		}
	}
	return false
}

// runOn sends one query to one solver; returns sat/unsat/unknown/error and the model.
func (s *Solver) runOn(kind, body string, vars []*Term, timeoutMs int, wantModel bool) (string, Model) {
	p := s.proc(kind)
	var q strings.Builder
	q.WriteString("(reset)\n")
	if kind == "cvc5" {
		fmt.Fprintf(&q, "(set-option :tlimit-per %d)\n", timeoutMs)
	} else {
		fmt.Fprintf(&q, "(set-option :timeout %d)\n", timeoutMs)
	}
	q.WriteString("(set-option :produce-models true)\n(set-logic ALL)\n")
	q.WriteString(body)
	q.WriteString("(check-sat)\n(echo \"@@cs\")\n")
	if dir := os.Getenv("GOSX_SMTLOG"); dir != "" {
		n := atomic.AddInt64(&smtLogSeq, 1)
		os.WriteFile(fmt.Sprintf("%s/q%06d.smt2", dir, n), []byte(q.String()), 0o644)
	}
	type reply struct {
		lines []string
		err   error
	}
	readUntil := func(marker string) reply {
		var lines []string
		for {
			l, err := p.out.ReadString('\n')
			if err != nil {
				return reply{lines, err}
			}
			l = strings.TrimSpace(l)
			if l == marker || l == "\""+marker+"\"" {
				return reply{lines, nil}
			}
			if l != "" {
				lines = append(lines, l)
			}
		}
	}
	ch := make(chan reply, 1)
	if _, err := io.WriteString(p.in, q.String()); err != nil {
		p.kill()
		return "error", nil
	}
	go func() { ch <- readUntil("@@cs") }()
	var r reply
	select {
	case r = <-ch:
	case <-time.After(time.Duration(timeoutMs)*time.Millisecond + 5*time.Second):
		p.kill()
		return "unknown", nil
	}
	if r.err != nil {
		p.kill()
		return "error", nil
	}
	res := "error"
	for _, l := range r.lines {
		if strings.Contains(l, "(error") {
			if strings.Contains(l, "interrupted") || strings.Contains(l, "timeout") {
				res = "unknown"
				continue
			}
			fmt.Fprintln(os.Stderr, "solver error line:", kind, l)
			return "error", nil
		}
		switch l {
		case "sat", "unsat", "unknown", "timeout":
			res = l
			if l == "timeout" {
				res = "unknown"
			}
		}
	}
	if res != "sat" || !wantModel || len(vars) == 0 {
		if res == "sat" && wantModel {
			return res, Model{}
		}
		return res, nil
	}
	var names []string
	for _, v := range vars {
		names = append(names, v.Name)
	}
	if _, err := io.WriteString(p.in, "(get-value ("+strings.Join(names, " ")+"))\n(echo \"@@gv\")\n"); err != nil {
		p.kill()
		return "error", nil
	}
	go func() { ch <- readUntil("@@gv") }()
	select {
	case r = <-ch:
	case <-time.After(30 * time.Second):
		p.kill()
		return "error", nil
	}
	if r.err != nil {
		p.kill()
		return "error", nil
	}
	m, ok := parseModel(strings.Join(r.lines, " "), vars)
	if !ok {
		fmt.Fprintln(os.Stderr, "cannot parse model:", strings.Join(r.lines, " "))
		return "error", nil
	}
	return "sat", m
}

// parseModel reads ((name value) ...) with Bool / BitVec values.
func parseModel(s string, vars []*Term) (Model, bool) {
	m := Model{}
	toks := strings.Fields(strings.NewReplacer("(", " ", ")", " ").Replace(s))
	// tokens alternate name value (no FP vars are ever declared: floats are BV bits + to_fp)
	if len(toks) != 2*len(vars) {
		return nil, false
	}
	for i := 0; i < len(toks); i += 2 {
		name, val := toks[i], toks[i+1]
		switch {
		case val == "true":
			m[name] = 1
		case val == "false":
			m[name] = 0
		case strings.HasPrefix(val, "#x"):
			v, err := strconv.ParseUint(val[2:], 16, 64)
			if err != nil {
				return nil, false
			}
			m[name] = v
		case strings.HasPrefix(val, "#b"):
			v, err := strconv.ParseUint(val[2:], 2, 64)
			if err != nil {
				return nil, false
			}
			m[name] = v
		default:
			return nil, false
		}
	}
	return m, true
}

// Check decides satisfiability of the conjunction; FP-bearing queries go to cvc5 first, others to z3;
// an undecided query is retried on the other back ends with the remaining budget.
func (s *Solver) Check(asserts []*Term, timeoutMs int, wantModel bool) (string, Model) {
	for _, a := range asserts {
		if a.conc() && !a.b() {
			return "unsat", nil
		}
	}
	body, vars := smtQuery(asserts)
	order := []string{"z3", "cvc5", "z3-new"}
	if hasFP(asserts) {
		order = []string{"cvc5", "z3", "z3-new"}
	}
	if forced := os.Getenv("GOSX_SOLVER"); forced != "" {
		order = []string{forced}
	}
	t0 := time.Now()
	res := "unknown"
	var model Model
	feas := timeoutMs < 10000
	if feas && order[0] == "cvc5" {
		timeoutMs *= 4 // FP feasibility queries: 1-2 s unloaded, more under load; an unknown costs far more downstream
	}
	for i, kind := range order {
		tmo := timeoutMs
		if i > 0 && feas {
			break // cheap feasibility queries are not raced
		}
		r, m := s.runOn(kind, body, vars, tmo, wantModel)
		gStats.Lock()
		gStats.byKind[kind]++
		gStats.Unlock()
		if r == "sat" || r == "unsat" {
			res, model = r, m
			break
		}
		if r == "error" {
			res = "error"
		}
	}
	el := time.Since(t0)
	if os.Getenv("GOSX_QTIMES") != "" {
		fmt.Fprintf(os.Stderr, "QTIME %s %.2fs timeout=%d fp=%v size=%d\n", res, el.Seconds(), timeoutMs, hasFP(asserts), len(body))
	}
	gStats.Lock()
	gStats.queries++
	gStats.nanos += el.Nanoseconds()
	switch res {
	case "sat":
		gStats.sat++
	case "unsat":
		gStats.unsat++
	case "unknown":
		gStats.unknown++
	default:
		gStats.errs++
	}
	gStats.Unlock()
	if res == "sat" && wantModel {
		// sanity: the model must satisfy the assertions under the native evaluator
		ev := newEval(model)
		for _, a := range asserts {
			if ev.eval(a) == 0 {
				fmt.Fprintln(os.Stderr, "WARNING: solver model does not satisfy assertion under native evaluation:", a.String())
				gStats.Lock()
				gStats.errs++
				gStats.Unlock()
				return "error", nil
			}
		}
	}
	return res, model
}

// CrossCheck re-runs a final obligation on all back ends and reports disagreement.
func (s *Solver) CrossCheck(asserts []*Term, timeoutMs int) map[string]string {
	body, vars := smtQuery(asserts)
	out := map[string]string{}
	for _, kind := range []string{"z3", "cvc5", "z3-new"} {
		r, _ := s.runOn(kind, body, vars, timeoutMs, false)
		out[kind] = r
	}
	return out
}
