package main

import (
	"fmt"
	"go/types"
	"os"
	"regexp"
	"strings"
	"unicode/utf8"
)

// ---------- harness intrinsics (body-less verif* functions of /verif/harness/api_sym.go) ----------

func (e *Exec) termsOf(v Value) []*Term {
	var out []*Term
	for _, x := range v.([]Value) {
		out = append(out, x.(*Term))
	}
	return out
}

func (e *Exec) verifIntrinsic(caller *frame, name string, args []Value) Value {
	if e.merge != nil {
		switch name {
		case "verifAnd", "verifOr", "verifNot", "verifImplies", "verifIteF", "verifIteI", "verifIff":
		default:
			panic(mergeAbort{"intrinsic inside pure region"})
		}
	}
	switch name {
	case "verifBool":
		return e.fresh(SBool, 0, "b", "bool")
	case "verifInt8", "verifInt16", "verifInt32", "verifInt64", "verifInt", "verifUint8", "verifUint16", "verifUint32", "verifUint64", "verifUint":
		b := basicOf(caller_result(e, name))
		w, _ := intWidth(b)
		return e.fresh(SBV, w, "i", strings.ToLower(strings.TrimPrefix(name, "verif")))
	case "verifFloat64":
		return e.fresh(SFP, 64, "f", "float64")
	case "verifFloat32":
		return e.fresh(SFP, 32, "g", "float32")
	case "verifChoose":
		n := int(args[0].(*Term).u())
		return cBV(uint64(e.choose(n, "c", "choose")), 64)
	case "verifAssume":
		e.assume(args[0].(*Term))
		if !e.hintValid && e.pos >= len(e.decisions) {
			e.ensureHint()
		}
		return nil
	case "verifAssert":
		e.obligation(args[0].(*Term), e.strOf(args[1]))
		return nil
	case "verifPickFloat", "verifPickInt":
		vals := args[0].([]Value)
		n := len(vals)
		c := e.fresh(SBV, 8, "p", "pick")
		e.assume(mk(OBvUlt, 0, c, cBV(uint64(n), 8)))
		ts := make([]*Term, n)
		for k, v := range vals {
			ts[k] = v.(*Term)
		}
		return fdPick(c, ts)
	case "verifAnd":
		r := tTrue
		for _, t := range e.termsOf(args[0]) {
			r = andT(r, t)
		}
		return r
	case "verifOr":
		r := tFalse
		for _, t := range e.termsOf(args[0]) {
			r = orT(r, t)
		}
		return r
	case "verifNot":
		return notT(args[0].(*Term))
	case "verifImplies":
		return impliesT(args[0].(*Term), args[1].(*Term))
	case "verifIff":
		return eqT(args[0].(*Term), args[1].(*Term))
	case "verifIteF", "verifIteI":
		return iteT(args[0].(*Term), args[1].(*Term), args[2].(*Term))
	case "verifAbsStr":
		e.astrSeq++
		a := &AStr{ID: e.astrSeq, Name: e.strOf(args[0])}
		e.astrLen(a) // creates the rune-count and byte-length variables in replay order
		return a
	case "verifTier":
		return cBV(uint64(e.run.cfg.tierN), 64)
	case "verifBytesStr":
		max := int(args[0].(*Term).u())
		n := e.choose(max+1, "len", "len")
		out := make(BStr, n)
		for k := range out {
			out[k] = e.fresh(SBV, 8, "ch", "byte")
		}
		return out
	case "verifFmtOK":
		return e.predVar("fmt:" + strKey(args[0]) + ":" + strKey(args[1]))
	case "verifKnownFmt":
		return e.predVar("known:" + strKey(args[0]))
	case "verifMatches":
		if _, abs := args[1].(*AStr); !abs {
			re, err := regexp.Compile(concStr(e, args[0]))
			if err != nil {
				return tFalse
			}
			return cBool(re.MatchString(concStr(e, args[1])))
		}
		return e.predVar("match:" + strKey(args[0]) + ":" + strKey(args[1]))
	case "verifJSONNumberInt":
		e.run.noteStub("json.Number carrier: decimal literal model (integer literal = its int64 value; ParseFloat correctly rounded)")
		return &NumStr{T: args[0].(*Term), Kind: "int"}
	case "verifJSONNumberFloat":
		e.run.noteStub("json.Number carrier: decimal literal with a fraction = its float64 value; not parseable as an integer")
		return &NumStr{T: args[0].(*Term), Kind: "float"}
	case "verifRuneCount":
		if a, ok := args[0].(*AStr); ok {
			return e.astrRunes(a)
		}
		if b, ok := args[0].(BStr); ok {
			return bstrRuneCount(b)
		}
		return cBV(uint64(utf8.RuneCountInString(concStr(e, args[0]))), 64)
	case "verifFoldEq":
		return cBool(strings.EqualFold(concStr(e, args[0]), concStr(e, args[1])))
	case "verifChecking":
		return cBool(e.run.cfg.property == e.strOf(args[0]))
	case "verifSameSet":
		return e.sameSet(args[0].([]Value), args[1].([]Value))
	case "verifSubset":
		return e.subset(args[0].([]Value), args[1].([]Value))
	case "verifStrEq":
		return equalsT(types.Typ[types.String], args[0], args[1])
	case "verifNoDup":
		xs := args[0].([]Value)
		r := tTrue
		for i := range xs {
			for j := i + 1; j < len(xs); j++ {
				r = andT(r, notT(equalsT(types.Typ[types.String], xs[i], xs[j])))
			}
		}
		return r
	case "verifHavocPools":
		e.havoc = args[0].(*Term).b()
		return nil
	case "verifPoolInv":
		e.checkPoolInv(args[0].([]Value))
		return nil
	case "verifPooledCount":
		n := 0
		for _, items := range e.poolItems {
			n += len(items)
		}
		return cBV(uint64(n), 64)
	case "verifPermMaps":
		e.permMaps = args[0].(*Term).b()
		return nil
	case "verifFreeze":
		e.freeze(args[0], e.strOf(args[1]))
		return nil
	case "verifUnfreeze":
		e.unfreeze()
		return nil
	case "verifGo":
		e.spawn(caller, args[0], nil)
		return nil
	case "verifJoin":
		e.joinAll()
		return nil
	case "verifReach":
		e.ensureHint()
		e.run.noteReach(e.strOf(args[0]))
		if e.strOf(args[0]) == "end" {
			e.reachedEnd = true
		}
		return nil
	case "verifObserve":
		e.observed = append(e.observed, obsRec{e.strOf(args[0]), args[1]})
		return nil
	case "verifKF":
		id := e.strOf(args[0])
		region := args[1].(*Term)
		if e.run.cfg.kfOpen[id] {
			if e.run.cfg.kfConfirm == id {
				e.assume(region)
			} else {
				if region.conc() && region.b() {
					// the whole path lies inside the region of an open known finding: what its
					// monitors recorded so far belongs to that finding, not to this pass
					e.kfExcluded = true
				}
				e.assume(notT(region))
			}
			if !e.hintValid && e.pos >= len(e.decisions) {
				e.ensureHint()
			}
		}
		return nil
	case "verifIsSymbolic":
		t, ok := args[0].(Iface).V.(*Term)
		return cBool(ok && !t.conc())
	}
	if v, ok := e.envIntrinsic(caller, name, args); ok {
		return v
	}
	panic(abort("unknown verif intrinsic " + name))
}

func caller_result(e *Exec, name string) types.Type {
	fn := e.pkg.Func(name)
	if fn == nil {
		for _, p := range e.prog.AllPackages() {
			if f := p.Func(name); f != nil && p.Pkg.Path() != e.pkg.Pkg.Path() && strings.HasPrefix(p.Pkg.Path(), "github.com/go-openapi/validate") {
				fn = f
			}
		}
	}
	return fn.Signature.Results().At(0).Type()
}

func (e *Exec) memberOf(x Value, ys []Value) *Term {
	r := tFalse
	for _, y := range ys {
		r = orT(r, equalsT(types.Typ[types.String], x, y))
	}
	return r
}

func (e *Exec) subset(xs, ys []Value) *Term {
	r := tTrue
	for _, x := range xs {
		r = andT(r, e.memberOf(x, ys))
	}
	return r
}

func (e *Exec) sameSet(xs, ys []Value) *Term { return andT(e.subset(xs, ys), e.subset(ys, xs)) }

// obligation: the property assertion. Decided by the solver on pc ∧ ¬c.
func (e *Exec) obligation(c *Term, label string) {
	run := e.run
	if c.conc() {
		if c.b() {
			run.noteObligation(label, "trivial")
			return
		}
		e.ensureHint()
		if e.blind {
			run.noteObligation(label, "unknown")
			e.events = append(e.events, pathEvent{Kind: "inconclusive", Label: label, What: "path feasibility unknown at a failing assertion"})
			return
		}
		run.noteObligation(label, "sat")
		e.events = append(e.events, pathEvent{Kind: "violation", Label: label, What: "assertion is false on this path", Model: e.hint})
		panic(pathEnd{"assertion failed"})
	}
	c = e.in.intern(c)
	if v, ok := e.in.known(c); ok && v {
		run.noteObligation(label, "trivial")
		return
	}
	if e.hintValid && e.ev.eval(c) == 0 {
		if os.Getenv("GOSX_DEBUG_PC") != "" {
			fmt.Fprintf(os.Stderr, "VIOLATION-BY-HINT %s decisions=%v hint=%v\n", label, e.decisions, e.hint)
			for i, t := range e.pc {
				fmt.Fprintf(os.Stderr, "  pc[%d] eval=%d %s\n", i, newEval(e.hint).eval(t), t.String())
			}
		}
		run.noteObligation(label, "sat")
		e.events = append(e.events, pathEvent{Kind: "violation", Label: label, What: "assertion violated", Model: e.hint})
		e.assume(c)
		return
	}
	q := append(append([]*Term{}, e.pc...), notT(c))
	r, m := e.sol.Check(q, run.cfg.oblMs, true)
	if r == "unsat" && run.cfg.cross {
		for k, v := range e.sol.CrossCheck(q, run.cfg.oblMs) {
			if v == "sat" {
				r = "error"
				e.events = append(e.events, pathEvent{Kind: "inconclusive", Label: label, What: "solver disagreement: " + k + " says sat"})
			}
		}
		run.noteCross()
	}
	switch r {
	case "unsat":
		run.noteObligation(label, "unsat")
	case "sat":
		run.noteObligation(label, "sat")
		e.events = append(e.events, pathEvent{Kind: "violation", Label: label, What: "assertion violated", Model: m})
	default:
		run.noteObligation(label, "unknown")
		e.events = append(e.events, pathEvent{Kind: "inconclusive", Label: label, What: fmt.Sprintf("solver answered %s within %d ms", r, run.cfg.oblMs)})
	}
	e.assume(c)
}
