package main

func init() {
	specAssume := []string{
		"loads.Document: harness-built; Spec() returns the harness's reference-free *spec.Swagger; SpecFilePath() is empty",
		"analysis.Spec: operations index supplied by the harness (Operations, OperationFor, OperationIDs, SafeParamsFor keyed in#name from the operation's own parameter list; no path-level parameters)",
		"spec.Expand*: no-op returning nil on reference-free arguments; deepCloneSchema: engine deep copy; swag.ToDynamicJSON: opaque empty object; #/definitions/parameter of the Swagger schema replaced by the empty schema",
	}
	specOutside := []string{"anything that depends on the real analyser index, $ref resolution, parameters arriving through #/parameters or path items, the re-validation of a parameter against #/definitions/parameter, validateReferencesValid, YAML/JSON loading: the level claimed is 'rule kernels of validate's own code under contract stubs', not the whole-pipeline statement"}
	props = append(props, []propSpec{
		{ID: "C03",
			Harnesses: []harnessSpec{
				{Name: "HarnessC03RequiredDefs", Bounds: "2 definitions x 6 shapes (defined, undefined, pattern-matched, additionalProperties true / schema, none), continue-on-errors symbolic"},
				{Name: "HarnessC03OperationIDs", Bounds: "3 operations over 2 methods, ids from {\"\", a, b}, map orders permuted"},
				{Name: "HarnessC03Parameters", Bounds: "one operation on one of 6 path templates with 0-2 (quick) / 0-3 (thorough) parameters: name in {x,y,b}, location in {path (required symbolic), query, body, formData}; oracle: unique name+location, <=1 body, body xor formData, path params required and matching the template one-to-one"},
				{Name: "HarnessC03PathOverlap", Bounds: "two of 6 path templates under one method, StrictPathParamUniqueness symbolic, map orders permuted"},
				{Name: "HarnessC03NonEmptyPathParams", Bounds: "paths section nil / empty / named placeholder / empty placeholder"},
				{Name: "HarnessC03Items", Bounds: "array parameter with/without items, nested array items, body schema array with/without items, response header array with/without items"},
				{Name: "HarnessC10WholeValidate", Bounds: "rule sequence and early-stop policy of the real (*SpecValidator).Validate under stubs"},
				{Name: "HarnessC03Ancestry", Bounds: "3 definitions, each inheriting (allOf [$ref, inline]) from none or one solver-chosen definition (itself included) and declaring one property from {p,q(,r)}; oracle: no duplicate property along the ancestry, no cycle; map orders permuted; references resolved by the local-reference stub"},
			},
			Assumptions: specAssume, Outside: specOutside,
		},
		{ID: "C07",
			Harnesses: []harnessSpec{
				{Name: "HarnessC07ParamNames", Bounds: "defaults and examples traversals over one operation whose parameter (body with a schema tree / simple / array with items) is named from {body, a.a, x.y, a.b.a, \"\", a., .a, default, items.default}; responses present or nil; continue-on-errors symbolic"},
				{Name: "HarnessC03NonEmptyPathParams", Bounds: "nil sections"},
				{Name: "HarnessC10WholeValidate", Bounds: "whole Validate under stubs, both continue-on-errors modes"},
				{Name: "HarnessC03Ancestry", Bounds: "inheritance graphs over 3 definitions incl. self-inheritance and cycles: the ancestry rules terminate"},
				{Name: "HarnessC09Definitions", Bounds: "definition and property names from small alphabets incl. overlapping ones"},
			},
			Assumptions: specAssume, Outside: append([]string{"crashes inside loader/analyser/expander; anything reached only through unresolved references"}, specOutside...),
		},
		{ID: "C09",
			Harnesses: []harnessSpec{
				{Name: "HarnessC09Definitions", Bounds: "one definition (name in {D, data, a}) holding a tree of depth <= 2 over properties / items / additionalProperties / allOf / nested object (member name in {p, a, data}) whose node is {type:number, maximum:2, default|example: 1 or 3}; defaults -> errors, examples -> warnings"},
				{Name: "HarnessC09SimpleItems", Bounds: "defaults/examples on the items of a simple parameter or a response header, depth 1 or 2, violating type / enum / maximum / maxLength or not"},
				{Name: "HarnessC09VisitedKernel", Bounds: "visited-path heuristic on definitions.<def>.<name>, def and name byte-vector strings of solver-chosen length 1..3 with unconstrained dot-free bytes"},
				{Name: "HarnessC07ParamNames", Bounds: "parameter defaults (simple, items, body schema)"},
			},
			Assumptions: specAssume, Outside: append([]string{"definitions reached through $ref, per-operation traversal through the real analyser, media types other than application/json"}, specOutside...),
		},
		{ID: "C10",
			Harnesses: []harnessSpec{
				{Name: "HarnessC03RequiredDefs", Bounds: "same document validated twice with independent solver-chosen map orders (verdict and message sets); continue-on-errors false vs true (errors subset, same verdict)"},
				{Name: "HarnessC03OperationIDs", Bounds: "map orders permuted"},
				{Name: "HarnessC03PathOverlap", Bounds: "map orders permuted"},
				{Name: "HarnessC10WholeValidate", Bounds: "the real (*SpecValidator).Validate (rule sequence, early stops, final bookkeeping) with all dependency calls stubbed on a one-definition one-operation document with 4 independent rule violations (bad default, bad example, undefined required, read-only required); run twice and with continue-on-errors on/off"},
			},
			Assumptions: specAssume, Outside: append([]string{"other processes, serialisation variants (JSON/YAML, member order in the file)"}, specOutside...),
		},
		{ID: "C05",
			Harnesses: []harnessSpec{
				{Name: "HarnessC05Options", Bounds: "SetContinueOnErrors(c) in one goroutine while another builds a SpecValidator; all schedules within 2 (quick) / 3 (thorough) preemptions; happens-before race monitor on package-level variables", PreemptBound: 2},
				{Name: "HarnessC05OneShot", Bounds: "AgainstSchema || AgainstSchema on a shared string schema through history-mode pools (Put->Get is a scheduling point and an HB edge); each outcome equals its solo outcome; race monitor on every heap cell", PreemptBound: 2},
				{Name: "HarnessC05Shared", Bounds: "one long-lived validator shared by two goroutines; outcomes equal solo; race monitor", PreemptBound: 2},
				{Name: "HarnessC15Concurrent", Bounds: "regexp cache: 2 goroutines, 3 calls, 4 patterns", PreemptBound: 2},
				{Name: "HarnessC03RequiredDefs", Bounds: "sequential ownership: no use of a result after the merge that redeemed it (use-after-put monitor)"},
				{Name: "HarnessC05SpecParallel", Bounds: "two goroutines run the (stubbed) whole specification validation on two distinct documents; each outcome equals its solo outcome; race monitor on every heap cell and package-level variable; preemption bound 1 (quick) / 2 (thorough)", PreemptBound: 1, MaxPaths: 400000},
				{Name: "HarnessC04History", Bounds: "sequential ownership reduction: use-after-put / double-put monitors over the mixed family through the recycling one-shot entry point (LIFO pools)"},
			},
			Assumptions: []string{"goroutines are cooperative threads switched only at visible operations (mutex, atomic, pool, package-level variable, go, exit): sound for race detection because a first race is always exposed by a schedule that switches only at synchronisation operations", "2 goroutines; 4..64 goroutines rest on the reduction to sequential ownership (C04/C08/C12 monitors), not on exploration"},
			Outside:     []string{"more than 2-3 goroutines, long call sequences, whole-specification validation of distinct documents in parallel"},
		},
		{ID: "C15",
			Harnesses: []harnessSpec{
				{Name: "HarnessC15Sequential", Bounds: "histories of 4 calls over {^a, b$, c+, ( }"},
				{Name: "HarnessC15Concurrent", Bounds: "2 goroutines, 3 calls in total, 4 patterns (one invalid), all schedules within the preemption bound, then a later sequential use", PreemptBound: 2},
				{Name: "HarnessC15Three", Bounds: "3 goroutines, 4 calls, 3 patterns", PreemptBound: 2, ThoroughOnly: true},
			},
			Assumptions: []string{"regexp objects are Go's, compiled natively from concrete patterns", "atomic.Value, sync.Mutex modelled per the Go memory model"},
			Outside:     []string{"that Go's regexp behaves as documented", "more than 3 goroutines"},
		},
		{ID: "C18",
			Harnesses: []harnessSpec{
				{Name: "HarnessC18Defaults", Bounds: "defaults through properties, allOf (2 members, overlapping), anyOf / oneOf (2 alternatives selected by a picked member), properties next to allOf, properties next to oneOf (first or second alternative matching), allOf next to oneOf (3) and anyOf (2), a nested object below a schema with oneOf; members a, b, k with forked presence; instances assumed valid"},
				{Name: "HarnessC18Nested", Bounds: "defaults inside a nested object, inside array elements (items) and inside a tuple held by a property"},
			},
			Outside: []string{"depth > 2", "instances the schema rejects"},
		},
		{ID: "C19",
			Harnesses: []harnessSpec{
				{Name: "HarnessC19Prune", Bounds: "properties, patternProperties, additionalProperties (schema / true), allOf, anyOf selected by a picked member; members a, ab, b, c with forked presence; idempotence when no anyOf/oneOf"},
				{Name: "HarnessC19Nested", Bounds: "nested object, array elements, tuple held by a property, additionalProperties, second allOf member, a member that is both a declared property and matched by a pattern property, a member matched by a pattern property only"},
			},
			Outside: []string{"depth > 2"},
		},
	}...)
}
