package main

import (
	"fmt"
	"go/types"
	"strconv"
	"strings"

	"golang.org/x/tools/go/ssa"
)

// Value model (after go/ssa/interp): scalars are *Term; strings are Go strings (possibly holding
// atom tokens, see strtok.go), BStr (symbolic bytes) or *AStr (abstract); pointers are *Value;
// structs/arrays are slices copied by value and stored in place; slices are native []Value;
// maps are ordered entry lists; interfaces are (dynamic type, value).

type Value interface{}

type Structure []Value
type Array []Value
type Tuple []Value

// Iface is an interface value; T == nil means nil interface.
type Iface struct {
	T types.Type
	V Value
}

type Closure struct {
	Fn  *ssa.Function
	Env []Value
}

// Map is an ordered association list with tombstones (nil key).
// Cond, when non-nil for an entry, is the symbolic presence condition of that entry.
type Map struct {
	KT     types.Type
	VT     types.Type
	Keys   []Value
	Vals   []Value
	Conds  []*Term // nil slice = all unconditional
	id     int
	noPerm bool // iteration order not permuted (objects built by environment stubs)
}

func (m *Map) cond(i int) *Term {
	if m.Conds == nil || m.Conds[i] == nil {
		return tTrue
	}
	return m.Conds[i]
}

func (m *Map) hasConds() bool {
	if m == nil || m.Conds == nil {
		return false
	}
	for i, c := range m.Conds {
		if m.Keys[i] != nil && c != nil && !c.conc() {
			return true
		}
	}
	return false
}

func (m *Map) size() int {
	if m == nil {
		return 0
	}
	n := 0
	for _, k := range m.Keys {
		if k != nil {
			n++
		}
	}
	return n
}

func (m *Map) hasSymKeys() bool {
	if m == nil {
		return false
	}
	for _, kk := range m.Keys {
		if isSymKey(kk) {
			return true
		}
	}
	return false
}

// isSymKey: a map key whose equality with another key is not decided concretely (a byte-vector
// string, a non-constant term, or an interface / struct / array holding one): such maps are kept as
// lists and membership is the disjunction built by symFind
func isSymKey(v Value) bool {
	switch v := v.(type) {
	case BStr:
		return true
	case *Term:
		return !v.conc()
	case *NumStr:
		return !v.T.conc()
	case string:
		return hasTok(v)
	case Iface:
		return v.T != nil && isSymKey(v.V)
	case []Value:
		for _, x := range v {
			if isSymKey(x) {
				return true
			}
		}
	case Structure:
		for _, x := range v {
			if isSymKey(x) {
				return true
			}
		}
	case Array:
		for _, x := range v {
			if isSymKey(x) {
				return true
			}
		}
	}
	return false
}

// symFind returns the condition under which key k is present (used when keys are symbolic).
func (m *Map) symFind(k Value) *Term {
	r := tFalse
	if m == nil {
		return r
	}
	for i, kk := range m.Keys {
		if kk == nil {
			continue
		}
		r = orT(r, andT(m.cond(i), equalsT(m.KT, kk, k)))
	}
	return r
}

func (m *Map) find(k Value) int {
	if m == nil {
		return -1
	}
	for i, kk := range m.Keys {
		if kk == nil {
			continue
		}
		if isSymKey(kk) || isSymKey(k) {
			continue
		}
		if equalsConc(m.KT, kk, k) {
			return i
		}
	}
	return -1
}

// reflect models
type RValue struct {
	T types.Type // nil => invalid Value
	V Value
}
type RType struct{ T types.Type }

// opaque non-nil object for externs we do not model
type Opaque struct{ Name string }

// BStr is a symbolic string of concrete length: one 8-bit term per byte.
type BStr []*Term

func toBStr(v Value) BStr {
	switch s := v.(type) {
	case BStr:
		return s
	case string:
		if hasTok(s) {
			panic(abort("byte-vector view of a string holding symbolic atoms"))
		}
		out := make(BStr, len(s))
		for i := 0; i < len(s); i++ {
			out[i] = cBV(uint64(s[i]), 8)
		}
		return out
	}
	panic(abort(fmt.Sprintf("toBStr of %T", v)))
}

func isBStr(v Value) bool { _, ok := v.(BStr); return ok }

func (b BStr) concrete() (string, bool) {
	out := make([]byte, len(b))
	for i, t := range b {
		if !t.conc() {
			return "", false
		}
		out[i] = byte(t.C)
	}
	return string(out), true
}

func bstrEq(a, b BStr) *Term {
	if len(a) != len(b) {
		return tFalse
	}
	r := tTrue
	for i := range a {
		r = andT(r, eqT(a[i], b[i]))
	}
	return r
}

// AStr is an abstract string: only its identity, rune count, byte length and the answers of
// pattern / format predicates are known (each a solver variable created on demand).
type AStr struct {
	ID   int
	Name string
}

func isAStr(v Value) bool { _, ok := v.(*AStr); return ok }

type goPanic struct{ v Value }   // a Go-level panic in the target program
type abortT struct{ why string } // engine cannot continue on this path
func abort(why string) abortT    { return abortT{why} }

type pathEnd struct{ why string } // path infeasible / assumption failed
type staleRead struct{ where string }
type monitorEvent struct{ kind, what string }

// Stale is the poison value held by reference fields of a recycled object that have not been overwritten.
type Stale struct{ Where string }

func zero(t types.Type) Value {
	switch t := t.(type) {
	case *types.Basic:
		switch {
		case isBoolB(t):
			return tFalse
		case isIntB(t):
			w, _ := intWidth(t)
			return cBV(0, w)
		case isFloatB(t):
			return cFP(0, fpW(t))
		case isStrB(t):
			return ""
		case t.Kind() == types.UnsafePointer:
			return (*Value)(nil)
		case t.Kind() == types.UntypedNil:
			return nil
		}
	case *types.Pointer:
		return (*Value)(nil)
	case *types.Array:
		a := make(Array, t.Len())
		for i := range a {
			a[i] = zero(t.Elem())
		}
		return a
	case *types.Named:
		if o := t.Obj(); o.Pkg() != nil && o.Pkg().Path() == "reflect" && o.Name() == "Value" {
			return RValue{}
		}
		return zero(t.Underlying())
	case *types.Alias:
		return zero(types.Unalias(t))
	case *types.Interface:
		return Iface{}
	case *types.Slice:
		return []Value(nil)
	case *types.Struct:
		s := make(Structure, t.NumFields())
		for i := range s {
			s[i] = zero(t.Field(i).Type())
		}
		return s
	case *types.Tuple:
		if t.Len() == 1 {
			return zero(t.At(0).Type())
		}
		s := make(Tuple, t.Len())
		for i := range s {
			s[i] = zero(t.At(i).Type())
		}
		return s
	case *types.Map:
		return (*Map)(nil)
	case *types.Signature:
		return (*ssa.Function)(nil)
	case *types.Chan:
		return (*Opaque)(nil)
	}
	panic(abort(fmt.Sprint("zero: unexpected ", t)))
}

func copyVal(v Value) Value {
	switch v := v.(type) {
	case Structure:
		c := make(Structure, len(v))
		for i := range v {
			c[i] = copyVal(v[i])
		}
		return c
	case Array:
		c := make(Array, len(v))
		for i := range v {
			c[i] = copyVal(v[i])
		}
		return c
	}
	return v
}

func load(addr *Value) Value {
	if addr == nil {
		panic(goPanic{"runtime error: invalid memory address or nil pointer dereference"})
	}
	return copyVal(*addr)
}

// store writes in place for aggregates so that interior pointers stay valid.
func (e *Exec) store(addr *Value, v Value) {
	if addr == nil {
		panic(goPanic{"runtime error: invalid memory address or nil pointer dereference"})
	}
	switch dst := (*addr).(type) {
	case Structure:
		src, ok := v.(Structure)
		if ok && len(src) == len(dst) {
			for i := range dst {
				e.store(&dst[i], src[i])
			}
			return
		}
	case Array:
		src, ok := v.(Array)
		if ok && len(src) == len(dst) {
			for i := range dst {
				e.store(&dst[i], src[i])
			}
			return
		}
	}
	if e != nil {
		e.noteStore(addr, v)
	}
	*addr = copyVal(v)
}

// equalsT returns a Term for x == y (Go ==; may be symbolic for scalars).
func equalsT(t types.Type, x, y Value) *Term {
	if sx, ok := x.(Stale); ok {
		if sy, ok2 := y.(Stale); ok2 && sx == sy {
			return tTrue
		}
		panic(staleRead{sx.Where})
	}
	if sy, ok := y.(Stale); ok {
		panic(staleRead{sy.Where})
	}
	switch x := x.(type) {
	case *Term:
		return eqT(x, y.(*Term))
	case BStr:
		if _, ok := y.(*AStr); ok {
			return tFalse
		}
		return bstrEq(x, toBStr(y))
	case string:
		switch yv := y.(type) {
		case BStr:
			return bstrEq(toBStr(x), yv)
		case *AStr:
			return tFalse // abstract strings are assumed distinct from every concrete string in play
		case string:
			return strEq(x, yv)
		}
	case *AStr:
		if ya, ok := y.(*AStr); ok {
			return cBool(x.ID == ya.ID)
		}
		return tFalse
	case *NumStr:
		if yn, ok := y.(*NumStr); ok && yn.Kind == x.Kind {
			return eqT(x.T, yn.T)
		}
		return tFalse
	case *Value:
		return cBool(x == y.(*Value))
	case *Map:
		return cBool(x == y.(*Map))
	case *ssa.Function:
		yf, _ := y.(*ssa.Function)
		return cBool(x == yf)
	case *Closure:
		yc, _ := y.(*Closure)
		return cBool(x == yc)
	case []Value: // only comparison with nil is legal
		ys := y.([]Value)
		return cBool(x == nil && ys == nil)
	case Iface:
		yi := y.(Iface)
		if x.T == nil || yi.T == nil {
			return cBool(x.T == nil && yi.T == nil)
		}
		if !types.Identical(x.T, yi.T) {
			return tFalse
		}
		if !types.Comparable(x.T) {
			panic(goPanic{"runtime error: comparing uncomparable type " + x.T.String()})
		}
		return equalsT(x.T, x.V, yi.V)
	case Structure:
		ys := y.(Structure)
		st := t.Underlying().(*types.Struct)
		r := tTrue
		for i := range x {
			if st.Field(i).Name() == "_" {
				continue
			}
			r = andT(r, equalsT(st.Field(i).Type(), x[i], ys[i]))
		}
		return r
	case Array:
		ya := y.(Array)
		r := tTrue
		et := t.Underlying().(*types.Array).Elem()
		for i := range x {
			r = andT(r, equalsT(et, x[i], ya[i]))
		}
		return r
	case *RType:
		yr, ok := y.(*RType)
		return cBool(ok && types.Identical(x.T, yr.T))
	case *Opaque:
		yo, _ := y.(*Opaque)
		return cBool(x == yo)
	case RValue:
		yr := y.(RValue)
		if x.T == nil || yr.T == nil {
			return cBool(x.T == nil && yr.T == nil)
		}
		if !types.Identical(x.T, yr.T) {
			return tFalse
		}
		switch xv := x.V.(type) {
		case *Map:
			return cBool(xv == yr.V.(*Map))
		case []Value:
			ys := yr.V.([]Value)
			if len(xv) == 0 || len(ys) == 0 {
				return cBool(len(xv) == len(ys) && cap(xv) == cap(ys))
			}
			return cBool(&xv[0] == &ys[0] && len(xv) == len(ys))
		}
		panic(abort(fmt.Sprintf("RValue == on %T", x.V)))
	case nil:
		return cBool(y == nil)
	}
	panic(abort(fmt.Sprintf("equals: %T vs %T", x, y)))
}

func equalsConc(t types.Type, x, y Value) bool {
	r := equalsT(t, x, y)
	if !r.conc() {
		panic(abort("symbolic map key comparison"))
	}
	return r.b()
}

// show renders a value for reports and observations.
func show(v Value) string {
	switch v := v.(type) {
	case *Term:
		if v.conc() {
			switch v.S {
			case SBV:
				return fmt.Sprint(sx(v.u(), v.W))
			case SBool:
				return fmt.Sprint(v.b())
			}
			if v.W == 32 {
				return strconv.FormatFloat(v.f(), 'g', -1, 32)
			}
			return strconv.FormatFloat(v.f(), 'g', -1, 64)
		}
		return "⟨" + v.String() + "⟩"
	case string:
		return strconv.Quote(v)
	case *AStr:
		return "⟨str " + v.Name + "⟩"
	case BStr:
		var parts []string
		for _, b := range v {
			parts = append(parts, show(b))
		}
		return "bytes[" + strings.Join(parts, " ") + "]"
	case Iface:
		if v.T == nil {
			return "nil"
		}
		return show(v.V)
	case []Value:
		var parts []string
		for _, x := range v {
			parts = append(parts, show(x))
		}
		return "[" + strings.Join(parts, " ") + "]"
	case *Map:
		if v == nil {
			return "map[]"
		}
		var parts []string
		for i, k := range v.Keys {
			if k != nil {
				parts = append(parts, show(k)+":"+show(v.Vals[i]))
			}
		}
		return "map[" + strings.Join(parts, " ") + "]"
	case nil:
		return "<nil>"
	case Stale:
		return "<stale " + v.Where + ">"
	}
	return fmt.Sprintf("%T", v)
}
