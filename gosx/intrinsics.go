package main

import (
	"fmt"
	"go/token"
	"go/types"
	"math"
	"regexp"
	"sort"
	"strconv"
	"strings"
	"unicode/utf8"

	"golang.org/x/tools/go/ssa"
)

// ---------- builtins ----------

func (e *Exec) mapLenTerm(m *Map) *Term {
	if !m.hasConds() {
		return cBV(uint64(m.size()), 64)
	}
	r := cBV(0, 64)
	for i, k := range m.Keys {
		if k == nil {
			continue
		}
		r = mk(OBvAdd, 0, r, iteT(m.cond(i), cBV(1, 64), cBV(0, 64)))
	}
	return r
}

func (e *Exec) callBuiltin(caller *frame, fn *ssa.Builtin, args []Value) Value {
	if len(args) > 0 {
		if st, ok := args[0].(Stale); ok {
			panic(staleRead{st.Where})
		}
	}
	if e.merge != nil {
		switch fn.Name() {
		case "append", "copy", "delete":
			panic(mergeAbort{"builtin with effects inside pure region"})
		}
	}
	switch fn.Name() {
	case "append":
		if len(args) == 1 {
			return args[0]
		}
		dst := args[0].([]Value)
		switch src := args[1].(type) {
		case string: // append([]byte, string...)
			if hasTok(src) {
				panic(abort("append of a string holding symbolic atoms to []byte"))
			}
			for i := 0; i < len(src); i++ {
				dst = append(dst, cBV(uint64(src[i]), 8))
			}
			return dst
		case BStr:
			for _, b := range src {
				dst = append(dst, b)
			}
			return dst
		case []Value:
			for _, v := range src {
				if len(dst) < cap(dst) {
					// appending within capacity writes into the existing backing array:
					// that is a store to a cell that may belong to somebody else
					cell := &dst[: len(dst)+1 : len(dst)+1][len(dst)]
					e.noteStore(cell, v)
					if e.ts != nil {
						e.memAccess(cell, true, "append")
					}
				}
				dst = append(dst, copyVal(v))
			}
			if dst == nil && src != nil {
				dst = []Value{}
			}
			return dst
		case Stale:
			panic(staleRead{src.Where})
		}
	case "copy":
		dst := args[0].([]Value)
		if s, ok := args[1].(string); ok {
			n := 0
			for i := 0; i < len(s) && i < len(dst); i++ {
				dst[i] = cBV(uint64(s[i]), 8)
				n++
			}
			return cBV(uint64(n), 64)
		}
		src := args[1].([]Value)
		n := 0
		for i := 0; i < len(src) && i < len(dst); i++ {
			e.store(&dst[i], src[i])
			n++
		}
		return cBV(uint64(n), 64)
	case "len":
		switch x := args[0].(type) {
		case BStr:
			return cBV(uint64(len(x)), 64)
		case *AStr:
			return e.astrLen(x)
		case string:
			if hasTok(x) {
				panic(abort("len of a string holding symbolic atoms"))
			}
			return cBV(uint64(len(x)), 64)
		case []Value:
			return cBV(uint64(len(x)), 64)
		case *Map:
			if x == nil {
				return cBV(0, 64)
			}
			e.mapAccess(x, false, "len")
			return e.mapLenTerm(x)
		case Array:
			return cBV(uint64(len(x)), 64)
		case *Value:
			return cBV(uint64(len((*x).(Array))), 64)
		}
	case "cap":
		switch x := args[0].(type) {
		case []Value:
			return cBV(uint64(cap(x)), 64)
		case Array:
			return cBV(uint64(len(x)), 64)
		}
	case "delete":
		m := args[0].(*Map)
		if m == nil {
			return nil
		}
		e.mapAccess(m, true, "delete")
		e.noteMapWrite(m, "delete")
		if st, ok := args[1].(Stale); ok {
			// deleting the key a range over a stale map yielded is what Result.cleared does
			for i, k := range m.Keys {
				if ks, ok := k.(Stale); ok && ks == st {
					m.Keys[i], m.Vals[i] = nil, nil
				}
			}
			return nil
		}
		if i := m.find(args[1]); i >= 0 {
			m.Keys[i], m.Vals[i] = nil, nil
		}
		return nil
	case "panic":
		panic(goPanic{args[0]})
	case "recover":
		return doRecover(caller)
	case "print", "println":
		return nil
	case "min", "max":
		acc := args[0].(*Term)
		pt := fn.Type().(*types.Signature).Params().At(0).Type()
		for _, a := range args[1:] {
			b := a.(*Term)
			op := token.LSS
			if fn.Name() == "max" {
				op = token.GTR
			}
			acc = iteT(termBinop(op, b, acc, pt), b, acc)
		}
		return acc
	case "ssa:wrapnilchk":
		recv := args[0]
		if p, ok := recv.(*Value); ok && p == nil {
			panic(goPanic{"value method called using nil pointer"})
		}
		return recv
	}
	panic(abort("builtin " + fn.Name() + fmt.Sprintf(" on %T", args[0])))
}

// ---------- abstract strings ----------

func (e *Exec) astrVar(key string, s Sort, w int, hint string) (*Term, bool) {
	if e.astrVars == nil {
		e.astrVars = map[string]*Term{}
	}
	if t, ok := e.astrVars[key]; ok {
		return t, false
	}
	if e.merge != nil {
		panic(mergeAbort{"fresh variable inside pure region"})
	}
	t := e.fresh(s, w, hint, hint)
	e.astrVars[key] = t
	return t, true
}

func (e *Exec) astrRunes(a *AStr) *Term {
	t, isNew := e.astrVar(fmt.Sprintf("runes:%d", a.ID), SBV, 64, "runes")
	if isNew {
		e.assume(mk(OBvUle, 0, t, cBV(4096, 64)))
	}
	return t
}

func (e *Exec) astrLen(a *AStr) *Term {
	r := e.astrRunes(a)
	t, isNew := e.astrVar(fmt.Sprintf("len:%d", a.ID), SBV, 64, "blen")
	if isNew {
		e.assume(mk(OBvUle, 0, r, t))
		e.assume(mk(OBvUle, 0, t, mk(OBvMul, 0, r, cBV(4, 64))))
	}
	return t
}

// predVar: an uninterpreted predicate applied to concrete keys, Ackermannised by the engine.
func (e *Exec) predVar(key string) *Term {
	t, _ := e.astrVar("pred:"+key, SBool, 0, "pred")
	return t
}

func strKey(v Value) string {
	switch s := v.(type) {
	case string:
		return strconv.Quote(s)
	case *AStr:
		return fmt.Sprintf("@%d", s.ID)
	case BStr:
		if c, ok := s.concrete(); ok {
			return strconv.Quote(c)
		}
	}
	panic(abort(fmt.Sprintf("predicate key of %T", v)))
}

// ---------- native conversion for fmt ----------

type nativeErr struct{ msg string }

func (n nativeErr) Error() string { return n.msg }

// toNative converts an engine value to a Go value usable by fmt; symbolic scalars become tokens.
func (e *Exec) toNative(v Value, t types.Type) interface{} {
	switch v := v.(type) {
	case *Term:
		if !v.conc() {
			return symTok{atom{T: v}, e}
		}
		var b *types.Basic
		if t != nil {
			b = basicOf(t)
		}
		switch v.S {
		case SBool:
			return v.b()
		case SFP:
			if v.W == 32 {
				return float32(v.f())
			}
			return v.f()
		default:
			if b != nil && isIntB(b) {
				w, signed := intWidth(b)
				if !signed {
					switch w {
					case 8:
						return uint8(v.u())
					case 16:
						return uint16(v.u())
					case 32:
						return uint32(v.u())
					}
					return v.u()
				}
				switch w {
				case 8:
					return int8(sx(v.u(), 8))
				case 16:
					return int16(sx(v.u(), 16))
				case 32:
					return int32(sx(v.u(), 32))
				}
			}
			return sx(v.u(), v.W)
		}
	case string:
		return v
	case *AStr:
		return symTok{atom{A: v}, e}
	case BStr:
		if c, ok := v.concrete(); ok {
			return c
		}
		panic(abort("formatting a byte-vector string"))
	case Iface:
		if v.T == nil {
			return nil
		}
		if _, isR := v.V.(*RType); isR {
			return v.V.(*RType).T.String()
		}
		if sel := e.prog.MethodSets.MethodSet(v.T).Lookup(nil, "Error"); sel != nil {
			m := e.prog.MethodValue(sel)
			return nativeErr{e.strOf(e.callSSA(nil, m, []Value{v.V}, nil))}
		}
		if sel := e.prog.MethodSets.MethodSet(v.T).Lookup(nil, "String"); sel != nil {
			if m := e.prog.MethodValue(sel); m != nil && m.Blocks != nil {
				return nativeErr{e.strOf(e.callSSA(nil, m, []Value{v.V}, nil))}
			}
		}
		return e.toNative(v.V, v.T)
	case []Value:
		var et types.Type
		if t != nil {
			if sl, ok := t.Underlying().(*types.Slice); ok {
				et = sl.Elem()
			}
		}
		if et != nil {
			if b := basicOf(et); b != nil && isStrB(b) {
				out := make([]string, len(v))
				for i, x := range v {
					out[i] = e.strOf(x)
				}
				return out
			}
		}
		out := make([]interface{}, len(v))
		for i, x := range v {
			out[i] = e.toNative(x, et)
		}
		return out
	case *Map:
		out := map[string]interface{}{}
		if v != nil {
			for i, k := range v.Keys {
				if k != nil {
					out[fmt.Sprint(e.toNative(k, v.KT))] = e.toNative(v.Vals[i], v.VT)
				}
			}
		}
		return out
	case *Value:
		if v == nil {
			return nil
		}
		return fmt.Sprintf("%p", v)
	case Stale:
		panic(staleRead{v.Where})
	case nil:
		return nil
	}
	return fmt.Sprintf("<%T>", v)
}

func (e *Exec) nativeArgs(args []Value) []interface{} {
	out := make([]interface{}, len(args))
	for i, a := range args {
		out[i] = e.toNative(a, nil)
	}
	return out
}

// ---------- reflect ----------

var reflectKind = map[types.BasicKind]uint64{
	types.Bool: 1, types.Int: 2, types.Int8: 3, types.Int16: 4, types.Int32: 5, types.Int64: 6,
	types.Uint: 7, types.Uint8: 8, types.Uint16: 9, types.Uint32: 10, types.Uint64: 11, types.Uintptr: 12,
	types.Float32: 13, types.Float64: 14, types.Complex64: 15, types.Complex128: 16, types.String: 24, types.UnsafePointer: 26,
}

func kindOf(t types.Type) uint64 {
	switch u := t.Underlying().(type) {
	case *types.Basic:
		return reflectKind[u.Kind()]
	case *types.Array:
		return 17
	case *types.Chan:
		return 18
	case *types.Signature:
		return 19
	case *types.Interface:
		return 20
	case *types.Map:
		return 21
	case *types.Pointer:
		return 22
	case *types.Slice:
		return 23
	case *types.Struct:
		return 25
	}
	panic(abort("kindOf " + t.String()))
}

var rtypeMarker = types.NewNamed(types.NewTypeName(0, nil, "rtype", nil), types.NewStruct(nil, nil), nil)

func rtypeIface(t types.Type) Value {
	if t == nil {
		return Iface{}
	}
	return Iface{T: rtypeMarker, V: &RType{t}}
}

func (e *Exec) callRtypeMethod(m *rtypeMethod, args []Value) Value {
	switch m.name {
	case "Kind":
		return cBV(kindOf(m.rt.T), 64)
	case "String":
		return types.TypeString(m.rt.T, func(p *types.Package) string { return p.Name() })
	case "Name":
		if n, ok := m.rt.T.(*types.Named); ok {
			return n.Obj().Name()
		}
		if b, ok := m.rt.T.(*types.Basic); ok {
			return b.Name()
		}
		return ""
	case "PkgPath":
		if n, ok := m.rt.T.(*types.Named); ok && n.Obj().Pkg() != nil {
			return n.Obj().Pkg().Path()
		}
		return ""
	case "Comparable":
		return cBool(types.Comparable(m.rt.T))
	case "ConvertibleTo":
		other := args[0].(Iface).V.(*RType).T
		return cBool(types.ConvertibleTo(m.rt.T, other))
	case "Elem":
		switch u := m.rt.T.Underlying().(type) {
		case *types.Pointer:
			return rtypeIface(u.Elem())
		case *types.Slice:
			return rtypeIface(u.Elem())
		case *types.Array:
			return rtypeIface(u.Elem())
		case *types.Map:
			return rtypeIface(u.Elem())
		}
	}
	panic(abort("reflect.Type." + m.name))
}

func rvalueOf(i Iface) RValue { return RValue{T: i.T, V: i.V} }

func (r RValue) iface() Iface {
	if r.T == nil {
		panic(goPanic{"reflect: call of reflect.Value.Interface on zero Value"})
	}
	if _, isI := r.T.Underlying().(*types.Interface); isI {
		return r.V.(Iface)
	}
	return Iface{T: r.T, V: r.V}
}

// deepEqual models reflect.DeepEqual on the value model (returns a Term, symbolic for scalars).
func (e *Exec) deepEqual(x, y Iface) *Term {
	if x.T == nil || y.T == nil {
		return cBool(x.T == nil && y.T == nil)
	}
	if !types.Identical(x.T, y.T) {
		return tFalse
	}
	return e.deepEqualV(x.T, x.V, y.V)
}

func (e *Exec) deepEqualV(t types.Type, x, y Value) *Term {
	if st, ok := x.(Stale); ok {
		panic(staleRead{st.Where})
	}
	if st, ok := y.(Stale); ok {
		panic(staleRead{st.Where})
	}
	switch u := t.Underlying().(type) {
	case *types.Basic:
		return equalsT(t, x, y)
	case *types.Interface:
		return e.deepEqual(x.(Iface), y.(Iface))
	case *types.Slice:
		xs, ys := x.([]Value), y.([]Value)
		if (xs == nil) != (ys == nil) || len(xs) != len(ys) {
			return tFalse
		}
		r := tTrue
		for i := range xs {
			r = andT(r, e.deepEqualV(u.Elem(), xs[i], ys[i]))
		}
		return r
	case *types.Array:
		xs, ys := x.(Array), y.(Array)
		r := tTrue
		for i := range xs {
			r = andT(r, e.deepEqualV(u.Elem(), xs[i], ys[i]))
		}
		return r
	case *types.Map:
		xm, ym := x.(*Map), y.(*Map)
		if (xm == nil) != (ym == nil) || xm.size() != ym.size() {
			return tFalse
		}
		r := tTrue
		if xm == nil {
			return r
		}
		if xm.hasConds() || ym.hasConds() {
			panic(abort("DeepEqual on maps with conditional entries"))
		}
		for i, k := range xm.Keys {
			if k == nil {
				continue
			}
			j := ym.find(k)
			if j < 0 {
				return tFalse
			}
			r = andT(r, e.deepEqualV(u.Elem(), xm.Vals[i], ym.Vals[j]))
		}
		return r
	case *types.Struct:
		xs, ys := x.(Structure), y.(Structure)
		r := tTrue
		for i := range xs {
			r = andT(r, e.deepEqualV(u.Field(i).Type(), xs[i], ys[i]))
		}
		return r
	case *types.Pointer:
		xp, yp := x.(*Value), y.(*Value)
		if xp == yp {
			return tTrue
		}
		if xp == nil || yp == nil {
			return tFalse
		}
		return e.deepEqualV(u.Elem(), *xp, *yp)
	}
	return equalsT(t, x, y)
}

type extFn func(e *Exec, caller *frame, args []Value) Value

var externals map[string]extFn

func concStr(e *Exec, v Value) string {
	s := e.strOf(v)
	if hasTok(s) {
		panic(abort("library call on a string holding symbolic atoms"))
	}
	return s
}

func rvTerm(r RValue) *Term {
	switch t := r.V.(type) {
	case *Term:
		return t
	case Stale:
		panic(staleRead{t.Where})
	}
	panic(goPanic{fmt.Sprintf("reflect: call of numeric accessor on %s Value", r.T)})
}

func init() {
	externals = map[string]extFn{
		"reflect.TypeOf":  func(e *Exec, c *frame, a []Value) Value { return rtypeIface(a[0].(Iface).T) },
		"reflect.ValueOf": func(e *Exec, c *frame, a []Value) Value { return rvalueOf(a[0].(Iface)) },
		"(reflect.Value).Type": func(e *Exec, c *frame, a []Value) Value {
			r := a[0].(RValue)
			if r.T == nil {
				panic(goPanic{"reflect: call of reflect.Value.Type on zero Value"})
			}
			return rtypeIface(r.T)
		},
		"(reflect.Value).Kind": func(e *Exec, c *frame, a []Value) Value {
			r := a[0].(RValue)
			if r.T == nil {
				return cBV(0, 64)
			}
			return cBV(kindOf(r.T), 64)
		},
		"(reflect.Value).IsValid":   func(e *Exec, c *frame, a []Value) Value { return cBool(a[0].(RValue).T != nil) },
		"(reflect.Value).Interface": func(e *Exec, c *frame, a []Value) Value { return a[0].(RValue).iface() },
		"(reflect.Value).IsNil": func(e *Exec, c *frame, a []Value) Value {
			r := a[0].(RValue)
			switch v := r.V.(type) {
			case *Value:
				return cBool(v == nil)
			case *Map:
				return cBool(v == nil)
			case []Value:
				return cBool(v == nil)
			case Iface:
				return cBool(v.T == nil)
			case *ssa.Function:
				return cBool(v == nil)
			case *Closure:
				return cBool(v == nil)
			}
			panic(goPanic{"reflect: call of reflect.Value.IsNil on non-nillable Value"})
		},
		"(reflect.Value).Len": func(e *Exec, c *frame, a []Value) Value {
			switch v := a[0].(RValue).V.(type) {
			case []Value:
				return cBV(uint64(len(v)), 64)
			case string:
				return cBV(uint64(len(v)), 64)
			case *AStr:
				return e.astrLen(v)
			case BStr:
				return cBV(uint64(len(v)), 64)
			case *Map:
				if v == nil {
					return cBV(0, 64)
				}
				return e.mapLenTerm(v)
			case Array:
				return cBV(uint64(len(v)), 64)
			}
			panic(goPanic{"reflect: call of reflect.Value.Len on " + kindName(a[0].(RValue)) + " Value"})
		},
		"(reflect.Value).Slice": func(e *Exec, c *frame, a []Value) Value {
			r := a[0].(RValue)
			lo := int(sx(e.concretize(a[1].(*Term), 64), 64))
			hi := int(sx(e.concretize(a[2].(*Term), 64), 64))
			v, ok := r.V.([]Value)
			if !ok {
				panic(abort(fmt.Sprintf("(reflect.Value).Slice of %T", r.V)))
			}
			if lo < 0 || hi < lo || hi > cap(v) {
				panic(goPanic{"reflect.Value.Slice: slice index out of bounds"})
			}
			return RValue{T: r.T, V: v[lo:hi]} // shares the cells, as the real one does
		},
		"(reflect.Value).Index": func(e *Exec, c *frame, a []Value) Value {
			r := a[0].(RValue)
			i := int(sx(e.concretize(a[1].(*Term), 64), 64))
			switch v := r.V.(type) {
			case []Value:
				if i < 0 || i >= len(v) {
					panic(goPanic{"reflect: slice index out of range"})
				}
				return RValue{T: r.T.Underlying().(*types.Slice).Elem(), V: v[i]}
			case Array:
				if i < 0 || i >= len(v) {
					panic(goPanic{"reflect: array index out of range"})
				}
				return RValue{T: r.T.Underlying().(*types.Array).Elem(), V: v[i]}
			}
			panic(goPanic{"reflect: call of reflect.Value.Index on " + kindName(r) + " Value"})
		},
		"(reflect.Value).MapKeys": func(e *Exec, c *frame, a []Value) Value {
			r := a[0].(RValue)
			m, ok := r.V.(*Map)
			if !ok {
				panic(goPanic{"reflect: call of reflect.Value.MapKeys on " + kindName(r) + " Value"})
			}
			out := []Value{}
			if m != nil {
				it := e.rangeIter(m, r.T).(*mapIter)
				for {
					t := it.next(e)
					if !t[0].(*Term).b() {
						break
					}
					out = append(out, RValue{T: m.KT, V: t[1]})
				}
			}
			return out
		},
		"(reflect.Value).MapIndex": func(e *Exec, c *frame, a []Value) Value {
			r := a[0].(RValue)
			m := r.V.(*Map)
			k := a[1].(RValue)
			if i := m.find(k.V); i >= 0 {
				return RValue{T: m.VT, V: m.Vals[i]}
			}
			return RValue{}
		},
		"(reflect.Value).Int": func(e *Exec, c *frame, a []Value) Value {
			r := a[0].(RValue)
			if b := basicOf(r.T); b == nil || !isIntB(b) {
				panic(goPanic{"reflect: call of reflect.Value.Int on " + kindName(r) + " Value"})
			} else if _, signed := intWidth(b); !signed {
				panic(goPanic{"reflect: call of reflect.Value.Int on " + kindName(r) + " Value"})
			}
			return termConvert(rvTerm(r), r.T, types.Typ[types.Int64])
		},
		"(reflect.Value).Uint": func(e *Exec, c *frame, a []Value) Value {
			r := a[0].(RValue)
			if b := basicOf(r.T); b == nil || !isIntB(b) {
				panic(goPanic{"reflect: call of reflect.Value.Uint on " + kindName(r) + " Value"})
			} else if _, signed := intWidth(b); signed {
				panic(goPanic{"reflect: call of reflect.Value.Uint on " + kindName(r) + " Value"})
			}
			return termConvert(rvTerm(r), r.T, types.Typ[types.Uint64])
		},
		"(reflect.Value).Float": func(e *Exec, c *frame, a []Value) Value {
			r := a[0].(RValue)
			if b := basicOf(r.T); b == nil || !isFloatB(b) {
				panic(goPanic{"reflect: call of reflect.Value.Float on " + kindName(r) + " Value"})
			}
			return termConvert(rvTerm(r), r.T, types.Typ[types.Float64])
		},
		"(reflect.Value).String": func(e *Exec, c *frame, a []Value) Value {
			r := a[0].(RValue)
			if r.T == nil {
				return "<invalid Value>"
			}
			if b := basicOf(r.T); b != nil && isStrB(b) {
				return r.V
			}
			return "<" + r.T.String() + " Value>"
		},
		"(reflect.Value).Bool": func(e *Exec, c *frame, a []Value) Value { return a[0].(RValue).V },
		"(reflect.Value).Convert": func(e *Exec, c *frame, a []Value) Value {
			r := a[0].(RValue)
			to := a[1].(Iface).V.(*RType).T
			if types.Identical(r.T, to) {
				return r
			}
			if !types.ConvertibleTo(r.T, to) {
				panic(goPanic{"reflect.Value.Convert: value of type " + r.T.String() + " cannot be converted to type " + to.String()})
			}
			if t, ok := r.V.(*Term); ok {
				if bt := basicOf(to); bt != nil && !isStrB(bt) {
					return RValue{T: to, V: termConvert(t, r.T, to)}
				}
			}
			return RValue{T: to, V: e.conv(to, r.T, r.V)}
		},
		"(reflect.Value).Elem": func(e *Exec, c *frame, a []Value) Value {
			r := a[0].(RValue)
			switch v := r.V.(type) {
			case *Value:
				if v == nil {
					return RValue{}
				}
				return RValue{T: r.T.Underlying().(*types.Pointer).Elem(), V: *v}
			case Iface:
				return RValue{T: v.T, V: v.V}
			}
			panic(goPanic{"reflect: call of reflect.Value.Elem on " + kindName(r) + " Value"})
		},
		"reflect.Indirect": func(e *Exec, c *frame, a []Value) Value {
			r := a[0].(RValue)
			if r.T != nil {
				if p, ok := r.T.Underlying().(*types.Pointer); ok {
					pv := r.V.(*Value)
					if pv == nil {
						return RValue{}
					}
					return RValue{T: p.Elem(), V: *pv}
				}
			}
			return r
		},
		"reflect.Zero": func(e *Exec, c *frame, a []Value) Value {
			t := a[0].(Iface).V.(*RType).T
			return RValue{T: t, V: zero(t)}
		},
		"reflect.DeepEqual": func(e *Exec, c *frame, a []Value) Value { return e.deepEqual(a[0].(Iface), a[1].(Iface)) },

		"fmt.Sprintf": func(e *Exec, c *frame, a []Value) Value {
			return fmt.Sprintf(concStr(e, a[0]), e.nativeArgs(a[1].([]Value))...)
		},
		"fmt.Sprint": func(e *Exec, c *frame, a []Value) Value { return fmt.Sprint(e.nativeArgs(a[0].([]Value))...) },
		"fmt.Errorf": func(e *Exec, c *frame, a []Value) Value {
			msg := fmt.Sprintf(strings.ReplaceAll(concStr(e, a[0]), "%w", "%v"), e.nativeArgs(a[1].([]Value))...)
			return e.newError(msg)
		},

		"strings.Split": func(e *Exec, c *frame, a []Value) Value {
			return strSlice(strings.Split(concStr(e, a[0]), concStr(e, a[1])))
		},
		"strings.Join": func(e *Exec, c *frame, a []Value) Value {
			vs := a[0].([]Value)
			parts := make([]string, len(vs))
			for i, v := range vs {
				parts[i] = e.strOf(v)
			}
			return strings.Join(parts, e.strOf(a[1]))
		},
		"strings.HasPrefix": func(e *Exec, c *frame, a []Value) Value {
			if isBStr(a[0]) || isBStr(a[1]) {
				s, pre := toBStr(a[0]), toBStr(a[1])
				if len(pre) > len(s) {
					return tFalse
				}
				return bstrEq(s[:len(pre)], pre)
			}
			if s0, ok := a[0].(string); ok && hasTok(s0) {
				// decidable when the literal head of the rope is at least as long as the prefix
				head, pre := s0[:strings.IndexByte(s0, 0)], concStr(e, a[1])
				if len(head) >= len(pre) {
					return cBool(strings.HasPrefix(head, pre))
				}
				if !strings.HasPrefix(pre, head) {
					return tFalse
				}
			}
			return cBool(strings.HasPrefix(concStr(e, a[0]), concStr(e, a[1])))
		},
		"strings.HasSuffix": func(e *Exec, c *frame, a []Value) Value {
			if isBStr(a[0]) || isBStr(a[1]) {
				s, suf := toBStr(a[0]), toBStr(a[1])
				if len(suf) > len(s) {
					return tFalse
				}
				return bstrEq(s[len(s)-len(suf):], suf)
			}
			return cBool(strings.HasSuffix(concStr(e, a[0]), concStr(e, a[1])))
		},
		"strings.TrimPrefix": func(e *Exec, c *frame, a []Value) Value {
			return strings.TrimPrefix(concStr(e, a[0]), concStr(e, a[1]))
		},
		"strings.TrimSuffix": func(e *Exec, c *frame, a []Value) Value {
			return strings.TrimSuffix(concStr(e, a[0]), concStr(e, a[1]))
		},
		"strings.TrimSpace": func(e *Exec, c *frame, a []Value) Value { return strings.TrimSpace(concStr(e, a[0])) },
		"strings.Trim":      func(e *Exec, c *frame, a []Value) Value { return strings.Trim(concStr(e, a[0]), concStr(e, a[1])) },
		"strings.Contains": func(e *Exec, c *frame, a []Value) Value {
			if isBStr(a[0]) || isBStr(a[1]) {
				s, sub := toBStr(a[0]), toBStr(a[1])
				r := tFalse
				for k := 0; k+len(sub) <= len(s); k++ {
					r = orT(r, bstrEq(s[k:k+len(sub)], sub))
				}
				return r
			}
			return cBool(strings.Contains(concStr(e, a[0]), concStr(e, a[1])))
		},
		"strings.ContainsRune": func(e *Exec, c *frame, a []Value) Value {
			return cBool(strings.ContainsRune(concStr(e, a[0]), rune(sx(a[1].(*Term).u(), 32))))
		},
		"strings.Index": func(e *Exec, c *frame, a []Value) Value {
			return cBV(uint64(int64(strings.Index(concStr(e, a[0]), concStr(e, a[1])))), 64)
		},
		"strings.IndexByte": func(e *Exec, c *frame, a []Value) Value {
			return cBV(uint64(int64(strings.IndexByte(concStr(e, a[0]), byte(a[1].(*Term).u())))), 64)
		},
		"strings.LastIndex": func(e *Exec, c *frame, a []Value) Value {
			return cBV(uint64(int64(strings.LastIndex(concStr(e, a[0]), concStr(e, a[1])))), 64)
		},
		"strings.Count": func(e *Exec, c *frame, a []Value) Value {
			return cBV(uint64(int64(strings.Count(concStr(e, a[0]), concStr(e, a[1])))), 64)
		},
		"strings.Replace": func(e *Exec, c *frame, a []Value) Value {
			return strings.Replace(concStr(e, a[0]), concStr(e, a[1]), concStr(e, a[2]), int(sx(a[3].(*Term).u(), 64)))
		},
		"strings.ReplaceAll": func(e *Exec, c *frame, a []Value) Value {
			return strings.ReplaceAll(concStr(e, a[0]), concStr(e, a[1]), concStr(e, a[2]))
		},
		"strings.EqualFold": func(e *Exec, c *frame, a []Value) Value {
			if isAStr(a[0]) || isAStr(a[1]) {
				if x, ok := a[0].(*AStr); ok {
					if y, ok := a[1].(*AStr); ok && x.ID == y.ID {
						return tTrue
					}
				}
				return tFalse
			}
			return cBool(strings.EqualFold(concStr(e, a[0]), concStr(e, a[1])))
		},
		"strings.ToLower": func(e *Exec, c *frame, a []Value) Value { return strings.ToLower(concStr(e, a[0])) },
		"strings.ToUpper": func(e *Exec, c *frame, a []Value) Value { return strings.ToUpper(concStr(e, a[0])) },
		"strings.Title":   func(e *Exec, c *frame, a []Value) Value { return strings.Title(concStr(e, a[0])) },
		"strings.Compare": func(e *Exec, c *frame, a []Value) Value {
			return cBV(uint64(int64(strings.Compare(concStr(e, a[0]), concStr(e, a[1])))), 64)
		},
		"strings.Fields": func(e *Exec, c *frame, a []Value) Value { return strSlice(strings.Fields(concStr(e, a[0]))) },
		"sort.Strings": func(e *Exec, c *frame, a []Value) Value {
			vs := a[0].([]Value)
			ss := make([]string, len(vs))
			for i, v := range vs {
				ss[i] = concStr(e, v)
			}
			sort.Strings(ss)
			for i := range vs {
				e.noteStore(&vs[i], ss[i])
				vs[i] = ss[i]
			}
			return nil
		},
		"sort.Slice":       sortSlice,
		"sort.SliceStable": sortSlice,
		"strconv.FormatFloat": func(e *Exec, c *frame, a []Value) Value {
			f := a[0].(*Term)
			if !f.conc() {
				return fmt.Sprint(symTok{atom{T: f}, e})
			}
			return strconv.FormatFloat(f.f(), byte(a[1].(*Term).u()), int(sx(a[2].(*Term).u(), 64)), int(sx(a[3].(*Term).u(), 64)))
		},
		"strconv.FormatInt": func(e *Exec, c *frame, a []Value) Value {
			f := a[0].(*Term)
			if !f.conc() {
				return fmt.Sprint(symTok{atom{T: f}, e})
			}
			return strconv.FormatInt(sx(f.u(), 64), int(sx(a[1].(*Term).u(), 64)))
		},
		"strconv.FormatUint": func(e *Exec, c *frame, a []Value) Value {
			f := a[0].(*Term)
			if !f.conc() {
				return fmt.Sprint(symTok{atom{T: f}, e})
			}
			return strconv.FormatUint(f.u(), int(sx(a[1].(*Term).u(), 64)))
		},
		"strconv.FormatBool": func(e *Exec, c *frame, a []Value) Value { return strconv.FormatBool(a[0].(*Term).b()) },
		"strconv.Quote":      func(e *Exec, c *frame, a []Value) Value { return strconv.Quote(e.strOf(a[0])) },
		"strconv.ParseInt": func(e *Exec, c *frame, a []Value) Value {
			if ns, ok := a[0].(*NumStr); ok {
				// decimal literal model of a json.Number: an integer literal parses to its value,
				// a literal with a fraction or exponent is a syntax error for ParseInt
				if ns.Kind == "int" {
					return Tuple{ns.T, Iface{}}
				}
				return Tuple{cBV(0, 64), e.newError("strconv.ParseInt: parsing a non-integer literal: invalid syntax")}
			}
			v, err := strconv.ParseInt(concStr(e, a[0]), int(sx(a[1].(*Term).u(), 64)), int(sx(a[2].(*Term).u(), 64)))
			if err != nil {
				return Tuple{cBV(uint64(v), 64), e.newError(err.Error())}
			}
			return Tuple{cBV(uint64(v), 64), Iface{}}
		},
		"strconv.ParseUint": func(e *Exec, c *frame, a []Value) Value {
			v, err := strconv.ParseUint(concStr(e, a[0]), int(sx(a[1].(*Term).u(), 64)), int(sx(a[2].(*Term).u(), 64)))
			if err != nil {
				return Tuple{cBV(v, 64), e.newError(err.Error())}
			}
			return Tuple{cBV(v, 64), Iface{}}
		},
		"strconv.ParseFloat": func(e *Exec, c *frame, a []Value) Value {
			if ns, ok := a[0].(*NumStr); ok {
				if ns.Kind == "int" {
					return Tuple{mk(OSbvToFp, 64, ns.T), Iface{}} // correctly rounded, as strconv does
				}
				return Tuple{ns.T, Iface{}}
			}
			v, err := strconv.ParseFloat(concStr(e, a[0]), int(sx(a[1].(*Term).u(), 64)))
			if err != nil {
				return Tuple{cFP(v, 64), e.newError(err.Error())}
			}
			return Tuple{cFP(v, 64), Iface{}}
		},
		"strconv.ParseBool": func(e *Exec, c *frame, a []Value) Value {
			v, err := strconv.ParseBool(concStr(e, a[0]))
			if err != nil {
				return Tuple{cBool(v), e.newError(err.Error())}
			}
			return Tuple{cBool(v), Iface{}}
		},
		"strconv.Itoa": func(e *Exec, c *frame, a []Value) Value {
			t := a[0].(*Term)
			if !t.conc() {
				return fmt.Sprint(symTok{atom{T: t}, e})
			}
			return strconv.Itoa(int(sx(t.u(), 64)))
		},
		"strconv.Atoi": func(e *Exec, c *frame, a []Value) Value {
			v, err := strconv.Atoi(concStr(e, a[0]))
			if err != nil {
				return Tuple{cBV(uint64(int64(v)), 64), e.newError(err.Error())}
			}
			return Tuple{cBV(uint64(int64(v)), 64), Iface{}}
		},
		"unicode/utf8.RuneCountInString": func(e *Exec, c *frame, a []Value) Value {
			switch s := a[0].(type) {
			case *AStr:
				return e.astrRunes(s)
			case BStr:
				e.run.noteStub("utf8.RuneCountInString on symbolic bytes: contract model of the UTF-8 decoder (unit-tested against the standard library)")
				return bstrRuneCount(s)
			case Stale:
				panic(staleRead{s.Where})
			}
			return cBV(uint64(utf8.RuneCountInString(concStr(e, a[0]))), 64)
		},

		"(*sync.Mutex).Lock":      func(e *Exec, c *frame, a []Value) Value { e.mutexLock(a[0].(*Value)); return nil },
		"(*sync.Mutex).Unlock":    func(e *Exec, c *frame, a []Value) Value { e.mutexUnlock(a[0].(*Value)); return nil },
		"(*sync.RWMutex).Lock":    func(e *Exec, c *frame, a []Value) Value { e.mutexLock(a[0].(*Value)); return nil },
		"(*sync.RWMutex).Unlock":  func(e *Exec, c *frame, a []Value) Value { e.mutexUnlock(a[0].(*Value)); return nil },
		"(*sync.RWMutex).RLock":   func(e *Exec, c *frame, a []Value) Value { e.mutexLock(a[0].(*Value)); return nil },
		"(*sync.RWMutex).RUnlock": func(e *Exec, c *frame, a []Value) Value { e.mutexUnlock(a[0].(*Value)); return nil },
		"(*sync.Pool).Get":        poolGet,
		"(*sync.Pool).Put":        poolPut,
		"(*sync/atomic.Value).Load": func(e *Exec, c *frame, a []Value) Value {
			p := a[0].(*Value)
			e.atomicLoad(p)
			v := (*p).(Structure)[0]
			if i, ok := v.(Iface); ok {
				return i
			}
			return Iface{}
		},
		"(*sync/atomic.Value).Store": func(e *Exec, c *frame, a []Value) Value {
			p := a[0].(*Value)
			e.atomicStore(p)
			(*p).(Structure)[0] = a[1]
			return nil
		},
		"os.Getenv":            func(e *Exec, c *frame, a []Value) Value { return "" },
		"log.New":              func(e *Exec, c *frame, a []Value) Value { var o Value = &Opaque{"log.Logger"}; return &o },
		"(*log.Logger).Printf": func(e *Exec, c *frame, a []Value) Value { return nil },
		"log.Printf":           func(e *Exec, c *frame, a []Value) Value { return nil },

		"regexp.Compile": func(e *Exec, c *frame, a []Value) Value {
			e.run.noteStub("regexp (native on concrete pattern and subject)")
			re, err := regexp.Compile(concStr(e, a[0]))
			if err != nil {
				return Tuple{(*Value)(nil), e.syntaxError(err)}
			}
			var o Value = &nativeRe{re}
			return Tuple{&o, Iface{}}
		},
		"regexp.MustCompile": func(e *Exec, c *frame, a []Value) Value {
			re, err := regexp.Compile(concStr(e, a[0]))
			if err != nil {
				panic(goPanic{"regexp: Compile(" + strconv.Quote(concStr(e, a[0])) + "): " + err.Error()})
			}
			var o Value = &nativeRe{re}
			return &o
		},
		"(*regexp.Regexp).MatchString": func(e *Exec, c *frame, a []Value) Value {
			re := reOf(a[0])
			if as, ok := a[1].(*AStr); ok {
				return e.predVar("match:" + strconv.Quote(re.String()) + ":" + strKey(as))
			}
			return cBool(re.MatchString(concStr(e, a[1])))
		},
		"(*regexp.Regexp).String": func(e *Exec, c *frame, a []Value) Value { return reOf(a[0]).String() },
		"(*regexp.Regexp).ReplaceAllString": func(e *Exec, c *frame, a []Value) Value {
			return reOf(a[0]).ReplaceAllString(concStr(e, a[1]), concStr(e, a[2]))
		},
		"(*regexp.Regexp).FindAllStringSubmatch": func(e *Exec, c *frame, a []Value) Value {
			res := reOf(a[0]).FindAllStringSubmatch(concStr(e, a[1]), int(sx(a[2].(*Term).u(), 64)))
			if res == nil {
				return []Value(nil)
			}
			out := make([]Value, len(res))
			for i, r := range res {
				out[i] = strSlice(r)
			}
			return out
		},
		"(*regexp.Regexp).FindAllString": func(e *Exec, c *frame, a []Value) Value {
			res := reOf(a[0]).FindAllString(concStr(e, a[1]), int(sx(a[2].(*Term).u(), 64)))
			if res == nil {
				return []Value(nil)
			}
			return strSlice(res)
		},

		"math.Abs": func(e *Exec, c *frame, a []Value) Value {
			t := a[0].(*Term)
			if r, ok := fdApply1(t, func(x *Term) *Term { return mk(OFpAbs, 0, x) }); ok {
				return r
			}
			return mk(OFpAbs, 0, t)
		},
		"math.IsNaN": func(e *Exec, c *frame, a []Value) Value {
			t := a[0].(*Term)
			if r, ok := fdApply1(t, func(x *Term) *Term { return mk(OFpIsNaN, 0, x) }); ok {
				return r
			}
			return mk(OFpIsNaN, 0, t)
		},
		"math.IsInf": func(e *Exec, c *frame, a []Value) Value {
			t, s := a[0].(*Term), sx(a[1].(*Term).u(), 64)
			f := func(x *Term) *Term {
				inf := mk(OFpIsInf, 0, x)
				switch {
				case s > 0:
					return andT(inf, notT(mk(OFpIsNeg, 0, x)))
				case s < 0:
					return andT(inf, mk(OFpIsNeg, 0, x))
				}
				return inf
			}
			if r, ok := fdApply1(t, f); ok {
				return r
			}
			return f(t)
		},
		"math.Trunc": func(e *Exec, c *frame, a []Value) Value {
			t := a[0].(*Term)
			if r, ok := fdApply1(t, func(x *Term) *Term { return mk(OFpTrunc, 0, x) }); ok {
				return r
			}
			return mk(OFpTrunc, 0, t)
		},
		// floor / ceil through the truncation: t = trunc(x); floor = t > x ? t-1 : t; ceil = t < x ? t+1 : t
		// (NaN, infinities and values beyond 2^52 are their own truncation, so both comparisons are false)
		"math.Floor": func(e *Exec, c *frame, a []Value) Value {
			f := func(x *Term) *Term {
				if x.conc() {
					return cFP(math.Floor(x.f()), 64)
				}
				t := mk(OFpTrunc, 0, x)
				return iteT(mk(OFpLt, 0, x, t), mk(OFpSub, 0, t, cFP(1, 64)), t)
			}
			if r, ok := fdApply1(a[0].(*Term), f); ok {
				return r
			}
			return f(a[0].(*Term))
		},
		// round half away from zero: t = trunc(x); |x - t| is exact, so round = |x-t| >= 0.5 ? t + sign(x) : t
		"math.Round": func(e *Exec, c *frame, a []Value) Value {
			f := func(x *Term) *Term {
				if x.conc() {
					return cFP(math.Round(x.f()), 64)
				}
				t := mk(OFpTrunc, 0, x)
				d := mk(OFpAbs, 0, mk(OFpSub, 0, x, t))
				away := iteT(mk(OFpIsNeg, 0, x), mk(OFpSub, 0, t, cFP(1, 64)), mk(OFpAdd, 0, t, cFP(1, 64)))
				return iteT(mk(OFpLe, 0, cFP(0.5, 64), d), away, t)
			}
			if r, ok := fdApply1(a[0].(*Term), f); ok {
				return r
			}
			return f(a[0].(*Term))
		},
		"math.Inf": func(e *Exec, c *frame, a []Value) Value {
			return cFP(math.Inf(int(sx(e.concretize(a[0].(*Term), 64), 64))), 64)
		},
		"math.Nextafter": func(e *Exec, c *frame, a []Value) Value {
			x, y := a[0].(*Term), a[1].(*Term)
			if !x.conc() || !y.conc() {
				panic(abort("math.Nextafter on symbolic operands"))
			}
			return cFP(math.Nextafter(x.f(), y.f()), 64)
		},
		"math.Ceil": func(e *Exec, c *frame, a []Value) Value {
			f := func(x *Term) *Term {
				if x.conc() {
					return cFP(math.Ceil(x.f()), 64)
				}
				t := mk(OFpTrunc, 0, x)
				return iteT(mk(OFpLt, 0, t, x), mk(OFpAdd, 0, t, cFP(1, 64)), t)
			}
			if r, ok := fdApply1(a[0].(*Term), f); ok {
				return r
			}
			return f(a[0].(*Term))
		},
		"math.Min": func(e *Exec, c *frame, a []Value) Value {
			x, y := a[0].(*Term), a[1].(*Term)
			f := func(x, y *Term) *Term {
				if x.conc() && y.conc() {
					return cFP(math.Min(x.f(), y.f()), 64)
				}
				// Go: Min(x,NaN)=NaN; Min(-0,±0)=-0
				nan := orT(mk(OFpIsNaN, 0, x), mk(OFpIsNaN, 0, y))
				zz := andT(mk(OFpIsZero, 0, x), mk(OFpIsZero, 0, y))
				return iteT(nan, cFP(math.NaN(), 64), iteT(zz, iteT(mk(OFpIsNeg, 0, x), x, y), iteT(mk(OFpLt, 0, x, y), x, y)))
			}
			if r, ok := fdApply2(x, y, f); ok {
				return r
			}
			return f(x, y)
		},
		"math.Float64bits": func(e *Exec, c *frame, a []Value) Value { return fpToBits(a[0].(*Term)) },
		"math.Float64frombits": func(e *Exec, c *frame, a []Value) Value {
			return &Term{Op: OFpOfBits, S: SFP, W: 64, A: []*Term{a[0].(*Term)}}
		},
	}
	var e0 *Exec
	externals["github.com/go-openapi/swag.FormatInt64"] = e0.numFormat("int")
	externals["github.com/go-openapi/swag.FormatUint64"] = e0.numFormat("uint")
	externals["github.com/go-openapi/swag.FormatFloat64"] = e0.numFormat("float")
	pi := func(bits int) func(string) (Value, error) {
		return func(s string) (Value, error) {
			v, err := strconv.ParseInt(s, 10, bits)
			return cBV(uint64(v), bits), err
		}
	}
	pu := func(bits int) func(string) (Value, error) {
		return func(s string) (Value, error) { v, err := strconv.ParseUint(s, 10, bits); return cBV(v, bits), err }
	}
	externals["github.com/go-openapi/swag.ConvertInt32"] = e0.numConvert("int", 32, pi(32))
	externals["github.com/go-openapi/swag.ConvertInt64"] = e0.numConvert("int", 64, pi(64))
	externals["github.com/go-openapi/swag.ConvertUint32"] = e0.numConvert("uint", 32, pu(32))
	externals["github.com/go-openapi/swag.ConvertUint64"] = e0.numConvert("uint", 64, pu(64))
	externals["github.com/go-openapi/swag.ConvertFloat32"] = e0.numConvert("float32", 32, func(s string) (Value, error) {
		v, err := strconv.ParseFloat(s, 32)
		return cFP(float64(float32(v)), 32), err
	})
	externals["github.com/go-openapi/swag.ConvertFloat64"] = e0.numConvert("float64", 64, func(s string) (Value, error) {
		v, err := strconv.ParseFloat(s, 64)
		return cFP(v, 64), err
	})
	registerEnvStubs()
	registerCtxStubs()
	registerSyncMap()
	registerRefStubs()
}

// float32Halfway = 2^128 - 2^103: the largest float64 whose shortest decimal still parses as a finite float32
var float32Halfway = math.Float64frombits(0x47EFFFFFF0000000)

func fpToBits(t *Term) *Term {
	if t.conc() {
		return cBV(t.C, t.W)
	}
	if t.Op == OFpOfBits {
		return t.A[0]
	}
	panic(abort("Float64bits of a computed symbolic float"))
}

func kindName(r RValue) string {
	if r.T == nil {
		return "zero"
	}
	names := map[uint64]string{1: "bool", 2: "int", 3: "int8", 4: "int16", 5: "int32", 6: "int64", 7: "uint", 8: "uint8", 9: "uint16", 10: "uint32", 11: "uint64", 12: "uintptr", 13: "float32", 14: "float64", 17: "array", 20: "interface", 21: "map", 22: "ptr", 23: "slice", 24: "string", 25: "struct"}
	return names[kindOf(r.T)]
}

type nativeRe struct{ re *regexp.Regexp }

func reOf(v Value) *regexp.Regexp {
	switch p := v.(type) {
	case *Value:
		if p == nil {
			panic(nilDeref())
		}
		if st, ok := (*p).(Stale); ok {
			panic(staleRead{st.Where})
		}
		return (*p).(*nativeRe).re
	case Stale:
		panic(staleRead{p.Where})
	}
	panic(abort(fmt.Sprintf("regexp receiver %T", v)))
}

// fieldByName reads s.<embedded>.<name> from a struct value using type information.
func fieldByName(s Structure, st *types.Struct, embedded, name string) Value {
	for i := 0; i < st.NumFields(); i++ {
		if st.Field(i).Name() == embedded {
			inner := st.Field(i).Type().Underlying().(*types.Struct)
			for j := 0; j < inner.NumFields(); j++ {
				if inner.Field(j).Name() == name {
					return s[i].(Structure)[j]
				}
			}
		}
	}
	panic(abort("fieldByName " + embedded + "." + name))
}

func fieldIndex(st *types.Struct, name string) int {
	for i := 0; i < st.NumFields(); i++ {
		if st.Field(i).Name() == name {
			return i
		}
	}
	panic(abort("no field " + name))
}

// NumStr is the string produced by swag.FormatX on a symbolic number (summary of the
// FormatX -> ConvertY round trip inside IsValueValidAgainstRange).
type NumStr struct {
	T    *Term
	Kind string // "int" | "uint" | "float"
}

func (e *Exec) numFormat(kind string) extFn {
	return func(e *Exec, c *frame, a []Value) Value {
		t := a[0].(*Term)
		if t.conc() {
			switch kind {
			case "int":
				return strconv.FormatInt(sx(t.u(), 64), 10)
			case "uint":
				return strconv.FormatUint(t.u(), 10)
			default:
				return strconv.FormatFloat(t.f(), 'f', -1, 64)
			}
		}
		e.run.noteStub("swag.Format*/Convert* round trip: succeeds iff the value is integral and in the target range (exact for |x| <= 2^53)")
		return &NumStr{T: t, Kind: kind}
	}
}

// numConvert summarises swag.ConvertIntN/UintN/FloatN applied to a NumStr.
func (e *Exec) numConvert(target string, bits int, native func(string) (Value, error)) extFn {
	return func(e *Exec, c *frame, a []Value) Value {
		ns, ok := a[0].(*NumStr)
		if !ok {
			v, err := native(concStr(e, a[0]))
			if err != nil {
				return Tuple{v, e.newError(err.Error())}
			}
			return Tuple{v, Iface{}}
		}
		x := ns.T
		var okT *Term
		var lo, hi float64
		switch target {
		case "int":
			lo, hi = -math.Pow(2, float64(bits-1)), math.Pow(2, float64(bits-1))-1
		case "uint":
			lo, hi = 0, math.Pow(2, float64(bits))-1
		}
		var conv *Term
		switch {
		case target == "float32":
			if ns.Kind == "float" {
				// strconv.ParseFloat(shortest decimal of x, 32) fails exactly when that decimal rounds to an
				// infinite float32: for finite x, when |x| > 2^128 - 2^103 (the halfway point itself prints as a
				// decimal just below it and rounds down); "NaN" and "+Inf" parse without error
				okT = orT(orT(mk(OFpIsNaN, 0, x), mk(OFpIsInf, 0, x)), mk(OFpLe, 0, mk(OFpAbs, 0, x), cFP(float32Halfway, 64)))
				conv = mk(OFpToFp, 32, x)
			} else {
				okT = tTrue
				if ns.Kind == "int" {
					conv = mk(OSbvToFp, 32, x)
				} else {
					conv = mk(OUbvToFp, 32, x)
				}
			}
		case target == "float64":
			okT = tTrue
			switch ns.Kind {
			case "float":
				okT = notT(mk(OFpIsNaN, 0, x))
				conv = x
			case "int":
				conv = mk(OSbvToFp, 64, x)
			default:
				conv = mk(OUbvToFp, 64, x)
			}
		case ns.Kind == "float":
			// hi for 64-bit targets is not representable: use strict < 2^(bits) / 2^(bits-1)
			var upper *Term
			if target == "int" {
				upper = mk(OFpLt, 0, x, cFP(math.Pow(2, float64(bits-1)), 64))
			} else {
				upper = mk(OFpLt, 0, x, cFP(math.Pow(2, float64(bits)), 64))
			}
			okT = andT(andT(notT(mk(OFpIsNaN, 0, x)), notT(mk(OFpIsInf, 0, x))),
				andT(mk(OFpEq, 0, x, mk(OFpTrunc, 0, x)), andT(mk(OFpLe, 0, cFP(lo, 64), x), upper)))
			conv = cBV(0, bits)
		case ns.Kind == "int":
			conv = mk(OExtract, bits, x)
			if bits == 64 {
				conv = x
			}
			if target == "int" {
				if bits == 64 {
					okT = tTrue
				} else {
					okT = andT(mk(OBvSle, 0, cBV(uint64(int64(lo)), 64), x), mk(OBvSle, 0, x, cBV(uint64(int64(hi)), 64)))
				}
			} else {
				if bits == 64 {
					okT = mk(OBvSle, 0, cBV(0, 64), x)
				} else {
					okT = andT(mk(OBvSle, 0, cBV(0, 64), x), mk(OBvSle, 0, x, cBV(uint64(hi), 64)))
				}
			}
		case ns.Kind == "uint":
			conv = mk(OExtract, bits, x)
			if bits == 64 {
				conv = x
			}
			if target == "uint" && bits == 64 {
				okT = tTrue
			} else {
				okT = mk(OBvUle, 0, x, cBV(uint64(hi), 64))
			}
		}
		if e.branch(okT) {
			return Tuple{conv, Iface{}}
		}
		zeroV := Value(cBV(0, bits))
		if strings.HasPrefix(target, "float") {
			zeroV = cFP(0, bits)
		}
		return Tuple{zeroV, e.newError("strconv: value out of range or invalid syntax")}
	}
}

func strSlice(ss []string) []Value {
	out := make([]Value, len(ss))
	for i, s := range ss {
		out[i] = s
	}
	return out
}

// newError builds an error value through the real errors.New of the standard library.
func (e *Exec) newError(msg string) Value {
	fn := e.prog.ImportedPackage("errors").Func("New")
	return e.callSSAraw(nil, fn, []Value{msg}, nil)
}

// sortSlice models sort.Slice / sort.SliceStable as an insertion sort that calls the real less
// closure and forks on its (possibly symbolic) result; every swap goes through the frame monitor.
// (sort.Slice is not stable natively: the order of equal elements is one of the allowed outcomes.)
func sortSlice(e *Exec, c *frame, a []Value) Value {
	xi, ok := a[0].(Iface)
	if !ok || xi.T == nil {
		panic(goPanic{"sort.Slice: nil slice argument"})
	}
	vs, ok := xi.V.([]Value)
	if !ok {
		panic(abort("sort.Slice on a non-slice"))
	}
	for i := 1; i < len(vs); i++ {
		for j := i; j > 0; j-- {
			r, ok := e.call(c, a[1], []Value{cBV(uint64(j), 64), cBV(uint64(j-1), 64)}, 0).(*Term)
			if !ok {
				panic(abort("sort.Slice: less did not return a bool"))
			}
			if !e.branch(r) {
				break
			}
			x, y := vs[j], vs[j-1]
			e.noteStore(&vs[j], y)
			vs[j] = y
			e.noteStore(&vs[j-1], x)
			vs[j-1] = x
		}
	}
	return nil
}
