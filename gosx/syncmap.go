package main

import (
	"go/types"
	"regexp/syntax"
)

// ---------- sync.Map: a synchronised map from interface keys to interface values ----------
// Every operation is a scheduling point and an acquire+release on the map object.

func (e *Exec) syncMapOf(p *Value) *Map {
	if e.syncMaps == nil {
		e.syncMaps = map[*Value]*Map{}
	}
	m, ok := e.syncMaps[p]
	if !ok {
		any := types.NewInterfaceType(nil, nil)
		e.mapSeq++
		m = &Map{KT: any, VT: any, id: e.mapSeq}
		e.syncMaps[p] = m
	}
	return m
}

func (e *Exec) syncMapOp(p *Value) *Map {
	e.atomicLoad(p)
	e.atomicStore(p)
	return e.syncMapOf(p)
}

func registerSyncMap() {
	sm := "(*sync.Map)."
	externals[sm+"Load"] = func(e *Exec, c *frame, a []Value) Value {
		m := e.syncMapOp(a[0].(*Value))
		if i := m.find(a[1]); i >= 0 {
			return Tuple{m.Vals[i], tTrue}
		}
		return Tuple{Iface{}, tFalse}
	}
	externals[sm+"Store"] = func(e *Exec, c *frame, a []Value) Value {
		m := e.syncMapOp(a[0].(*Value))
		if i := m.find(a[1]); i >= 0 {
			m.Vals[i] = a[2]
			return nil
		}
		m.Keys = append(m.Keys, a[1])
		m.Vals = append(m.Vals, a[2])
		return nil
	}
	externals[sm+"LoadOrStore"] = func(e *Exec, c *frame, a []Value) Value {
		m := e.syncMapOp(a[0].(*Value))
		if i := m.find(a[1]); i >= 0 {
			return Tuple{m.Vals[i], tTrue}
		}
		m.Keys = append(m.Keys, a[1])
		m.Vals = append(m.Vals, a[2])
		return Tuple{a[2], tFalse}
	}
	externals[sm+"Delete"] = func(e *Exec, c *frame, a []Value) Value {
		m := e.syncMapOp(a[0].(*Value))
		if i := m.find(a[1]); i >= 0 {
			m.Keys = append(m.Keys[:i:i], m.Keys[i+1:]...)
			m.Vals = append(m.Vals[:i:i], m.Vals[i+1:]...)
		}
		return nil
	}
	externals[sm+"LoadAndDelete"] = func(e *Exec, c *frame, a []Value) Value {
		m := e.syncMapOp(a[0].(*Value))
		if i := m.find(a[1]); i >= 0 {
			v := m.Vals[i]
			m.Keys = append(m.Keys[:i:i], m.Keys[i+1:]...)
			m.Vals = append(m.Vals[:i:i], m.Vals[i+1:]...)
			return Tuple{v, tTrue}
		}
		return Tuple{Iface{}, tFalse}
	}
	externals[sm+"Range"] = func(e *Exec, c *frame, a []Value) Value {
		m := e.syncMapOp(a[0].(*Value))
		keys := append([]Value{}, m.Keys...)
		vals := append([]Value{}, m.Vals...)
		for i := range keys {
			r := e.call(c, a[1], []Value{keys[i], vals[i]}, 0).(*Term)
			if !e.branch(r) {
				break
			}
		}
		return nil
	}

	// ---------- regexp/syntax.Error values and errors.As / errors.Is ----------
	externals["(*regexp/syntax.Error).Error"] = func(e *Exec, c *frame, a []Value) Value {
		p := a[0].(*Value)
		if p == nil {
			panic(nilDeref())
		}
		s := (*p).(Structure)
		return "error parsing regexp: " + e.strOf(s[0]) + ": `" + e.strOf(s[1]) + "`"
	}
	externals["(regexp/syntax.ErrorCode).String"] = func(e *Exec, c *frame, a []Value) Value { return e.strOf(a[0]) }
	externals["errors.As"] = func(e *Exec, c *frame, a []Value) Value {
		err, _ := a[0].(Iface)
		tgt, ok := a[1].(Iface)
		if !ok || tgt.T == nil {
			panic(goPanic{"errors: target cannot be nil"})
		}
		pt, ok := tgt.T.Underlying().(*types.Pointer)
		if !ok {
			panic(goPanic{"errors: target must be a non-nil pointer"})
		}
		want := pt.Elem()
		for depth := 0; err.T != nil && depth < 8; depth++ {
			match := types.Identical(err.T, want)
			if it, isI := want.Underlying().(*types.Interface); isI && !match {
				match = types.Implements(err.T, it)
			}
			if match {
				cell := tgt.V.(*Value)
				if _, isI := want.Underlying().(*types.Interface); isI {
					e.store(cell, err)
				} else {
					e.store(cell, err.V)
				}
				return tTrue
			}
			next, ok := e.unwrapErr(c, err)
			if !ok {
				break
			}
			err = next
		}
		return tFalse
	}
	externals["errors.Is"] = func(e *Exec, c *frame, a []Value) Value {
		err, _ := a[0].(Iface)
		tgt, _ := a[1].(Iface)
		for depth := 0; depth < 8; depth++ {
			if err.T == nil || tgt.T == nil {
				return cBool(err.T == nil && tgt.T == nil)
			}
			if types.Identical(err.T, tgt.T) && types.Comparable(err.T) {
				if r := equalsT(err.T, err.V, tgt.V); r.conc() && r.b() {
					return tTrue
				}
			}
			next, ok := e.unwrapErr(c, err)
			if !ok {
				break
			}
			err = next
		}
		return tFalse
	}
	externals["errors.Unwrap"] = func(e *Exec, c *frame, a []Value) Value {
		err, _ := a[0].(Iface)
		if err.T == nil {
			return Iface{}
		}
		if next, ok := e.unwrapErr(c, err); ok {
			return next
		}
		return Iface{}
	}
}

// unwrapErr calls the dynamic type's Unwrap() error method, if it has one.
func (e *Exec) unwrapErr(c *frame, err Iface) (Iface, bool) {
	ms := e.prog.MethodSets.MethodSet(err.T)
	sel := ms.Lookup(nil, "Unwrap")
	if sel == nil {
		for i := 0; i < ms.Len(); i++ {
			if ms.At(i).Obj().Name() == "Unwrap" {
				sel = ms.At(i)
			}
		}
	}
	if sel == nil {
		return Iface{}, false
	}
	sig, ok := sel.Type().(*types.Signature)
	if !ok || sig.Params().Len() != 0 || sig.Results().Len() != 1 {
		return Iface{}, false
	}
	if _, isSlice := sig.Results().At(0).Type().Underlying().(*types.Slice); isSlice {
		return Iface{}, false
	}
	fn := e.prog.MethodValue(sel)
	if fn == nil {
		return Iface{}, false
	}
	r, ok := e.call(c, fn, []Value{err.V}, 0).(Iface)
	if !ok || r.T == nil {
		return Iface{}, false
	}
	return r, true
}

// syntaxError builds the *regexp/syntax.Error value the real compiler returns.
func (e *Exec) syntaxError(err error) Value {
	se, ok := err.(*syntax.Error)
	pkg := e.prog.ImportedPackage("regexp/syntax")
	if !ok || pkg == nil {
		return e.newError(err.Error())
	}
	t := pkg.Type("Error").Type()
	var z Value = Structure{string(se.Code), se.Expr}
	return Iface{T: types.NewPointer(t), V: &z}
}
