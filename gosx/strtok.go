package main

import (
	"fmt"
	"strconv"
	"strings"
	"sync"
	"sync/atomic"
)

// Strings that embed symbolic scalars ("ropes"): a symbolic atom is spliced into an ordinary Go
// string as the token \x00<id>:<verb>\x01. All concrete string operations (concatenation,
// Sprintf pass-through, use as part of a message) work unchanged; equality of two strings that
// hold tokens is decided piecewise: different literal skeletons => different strings; equal
// skeletons => conjunction of atom equalities (a solver term).

type atom struct {
	T *Term
	A *AStr
}

var atomTab sync.Map // id -> atom
var atomSeq int64

func newAtomTok(a atom, verb rune) (string, int64) {
	id := atomSeq2()
	atomTab.Store(id, a)
	return fmt.Sprintf("\x00%d:%c\x01", id, verb), id
}

func atomSeq2() int64 { return atomic.AddInt64(&atomSeq, 1) }

func hasTok(s string) bool { return strings.IndexByte(s, 0) >= 0 }

type strPiece struct {
	lit  string
	at   atom
	verb byte
	isAt bool
}

func splitToks(s string) []strPiece {
	var out []strPiece
	for {
		i := strings.IndexByte(s, 0)
		if i < 0 {
			out = append(out, strPiece{lit: s})
			return out
		}
		j := strings.IndexByte(s[i:], 1)
		if j < 0 {
			out = append(out, strPiece{lit: s})
			return out
		}
		out = append(out, strPiece{lit: s[:i]})
		body := s[i+1 : i+j]
		k := strings.IndexByte(body, ':')
		id, _ := strconv.ParseInt(body[:k], 10, 64)
		a, _ := atomTab.Load(id)
		out = append(out, strPiece{at: a.(atom), verb: body[k+1], isAt: true})
		s = s[i+j+1:]
	}
}

func normVerb(v byte) byte {
	if v == 'd' {
		return 'v'
	}
	return v
}

func atomEq(x, y strPiece) *Term {
	if normVerb(x.verb) != normVerb(y.verb) {
		return tFalse
	}
	if x.at.A != nil || y.at.A != nil {
		return cBool(x.at.A != nil && y.at.A != nil && x.at.A.ID == y.at.A.ID)
	}
	a, b := x.at.T, y.at.T
	if a.S != b.S || a.W != b.W {
		return tFalse
	}
	if a.S == SFP {
		bothNaN := andT(mk(OFpIsNaN, 0, a), mk(OFpIsNaN, 0, b))
		same := andT(mk(OFpEq, 0, a, b), eqT(mk(OFpIsNeg, 0, a), mk(OFpIsNeg, 0, b)))
		return orT(bothNaN, same)
	}
	return eqT(a, b)
}

// strEq: Go == on strings that may hold atom tokens.
func strEq(x, y string) *Term {
	if !hasTok(x) && !hasTok(y) {
		return cBool(x == y)
	}
	px, py := splitToks(x), splitToks(y)
	if len(px) != len(py) {
		return tFalse
	}
	r := tTrue
	for i := range px {
		if px[i].isAt != py[i].isAt {
			return tFalse
		}
		if !px[i].isAt {
			if px[i].lit != py[i].lit {
				return tFalse
			}
			continue
		}
		r = andT(r, atomEq(px[i], py[i]))
	}
	return r
}

// renderStr replaces tokens by their value under a model (ev may be nil: symbolic rendering).
func renderStr(s string, ev *evaluator) string {
	if !hasTok(s) {
		return s
	}
	var sb strings.Builder
	for _, p := range splitToks(s) {
		if !p.isAt {
			sb.WriteString(p.lit)
			continue
		}
		switch {
		case p.at.A != nil:
			sb.WriteString("⟨" + p.at.A.Name + "⟩")
		case ev == nil:
			sb.WriteString("⟨" + p.at.T.String() + "⟩")
		default:
			sb.WriteString(show(cBits(p.at.T.S, p.at.T.W, ev.eval(p.at.T))))
		}
	}
	return sb.String()
}

// symTok is what a symbolic scalar looks like to the native fmt package.
type symTok struct {
	a atom
	e *Exec
}

func (s symTok) Format(f fmt.State, c rune) {
	tok, id := newAtomTok(s.a, c)
	if s.e != nil {
		s.e.atomIDs = append(s.e.atomIDs, id)
	}
	fmt.Fprint(f, tok)
}
