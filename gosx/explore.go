package main

import (
	"fmt"
	"math/rand"
	"os"
	"runtime"
	"sort"
	"strings"
	"sync"
	"time"

	"golang.org/x/tools/go/ssa"
)

type workItem struct {
	dec   []int32
	model Model
}

type runConfig struct {
	feasMs       int
	oblMs        int
	cross        bool
	maxSteps     int64
	maxPaths     int
	wall         time.Duration
	mergeOn      bool
	trace        bool
	preemptBound int
	workers      int
	witnesses    int
	seed         int64
	kfOpen       map[string]bool
	kfConfirm    string
	tierN        int
	property     string
	stopOnEvent  bool
}

type nondetVal struct {
	Kind string `json:"k"`
	Bits uint64 `json:"v"`
	W    int    `json:"w"`
}

type witness struct {
	Decisions []int32     `json:"decisions"`
	Nondet    []nondetVal `json:"nondet"`
	Observed  []string    `json:"observed"`
	Outcome   string      `json:"outcome"` // end | panic:<msg> | event
}

type reportedEvent struct {
	Kind    string   `json:"kind"`
	Label   string   `json:"label"`
	What    string   `json:"what"`
	Count   int      `json:"count"`
	Witness *witness `json:"witness,omitempty"`
	Inputs  []string `json:"inputs,omitempty"`
}

type harnessRun struct {
	name string
	fn   *ssa.Function
	cfg  runConfig
	prog *ssa.Program
	pkg  *ssa.Package

	mu     sync.Mutex
	cond   *sync.Cond
	queue  []workItem
	active int
	stop   bool

	paths, ended, aborted, infeasible, panics int
	steps                                     int64
	maxDepth                                  int
	obl                                       map[string]map[string]int
	funcs                                     map[string]int
	externs                                   map[string]int
	stubs                                     map[string]int
	reaches                                   map[string]int
	events                                    map[string]*reportedEvent
	eventOrder                                []string
	witnesses                                 []witness
	seenW                                     int
	unknownFeas, summaries, summaryPaths      int
	staleObjs, crossChecks                    int
	mon                                       [5]int64
	rng                                       *rand.Rand
	start                                     time.Time
	limitHit                                  string

	initPkgs             []*ssa.Package
	funcSeen, externSeen sync.Map

	pureMu  sync.Mutex
	pure    map[*ssa.Function]bool
	pdom    map[*ssa.Function][]*ssa.BasicBlock
	noMerge map[ssa.Instruction]bool
}

func (r *harnessRun) mergeFailed(ins ssa.Instruction) {
	r.pureMu.Lock()
	if r.noMerge == nil {
		r.noMerge = map[ssa.Instruction]bool{}
	}
	r.noMerge[ins] = true
	r.pureMu.Unlock()
}
func (r *harnessRun) mergeBanned(ins ssa.Instruction) bool {
	r.pureMu.Lock()
	defer r.pureMu.Unlock()
	return r.noMerge[ins]
}
func (r *harnessRun) noteUnknownFeas() { r.mu.Lock(); r.unknownFeas++; r.mu.Unlock() }
func (r *harnessRun) noteExtern(n string) {
	if _, ok := r.externSeen.Load(n); ok {
		return
	}
	r.externSeen.Store(n, true)
	r.mu.Lock()
	r.externs[n]++
	r.mu.Unlock()
}
func (r *harnessRun) noteStub(n string)  { r.mu.Lock(); r.stubs[n]++; r.mu.Unlock() }
func (r *harnessRun) noteStale()         { r.mu.Lock(); r.staleObjs++; r.mu.Unlock() }
func (r *harnessRun) noteCross()         { r.mu.Lock(); r.crossChecks++; r.mu.Unlock() }
func (r *harnessRun) noteReach(l string) { r.mu.Lock(); r.reaches[l]++; r.mu.Unlock() }
func (r *harnessRun) noteSummary(n int) {
	r.mu.Lock()
	r.summaries++
	r.summaryPaths += n
	r.mu.Unlock()
}
func (r *harnessRun) noteFunc(fn *ssa.Function) {
	if _, ok := r.funcSeen.Load(fn); ok {
		return
	}
	r.funcSeen.Store(fn, true)
	r.mu.Lock()
	n := 0
	for _, b := range fn.Blocks {
		n += len(b.Instrs)
	}
	r.funcs[fn.String()] = n
	r.mu.Unlock()
}
func (r *harnessRun) noteObligation(label, res string) {
	r.mu.Lock()
	if r.obl[label] == nil {
		r.obl[label] = map[string]int{}
	}
	r.obl[label][res]++
	r.mu.Unlock()
}

func newHarnessRun(prog *ssa.Program, pkg *ssa.Package, fn *ssa.Function, cfg runConfig) *harnessRun {
	r := &harnessRun{name: fn.Name(), fn: fn, cfg: cfg, prog: prog, pkg: pkg,
		obl: map[string]map[string]int{}, funcs: map[string]int{}, externs: map[string]int{}, stubs: map[string]int{},
		reaches: map[string]int{}, events: map[string]*reportedEvent{}, pure: map[*ssa.Function]bool{},
		rng: rand.New(rand.NewSource(cfg.seed))}
	r.cond = sync.NewCond(&r.mu)
	return r
}

// explore runs the harness on all paths with cfg.workers workers.
func (r *harnessRun) explore() {
	r.start = time.Now()
	r.queue = []workItem{{dec: nil, model: Model{}}}
	var wg sync.WaitGroup
	for w := 0; w < r.cfg.workers; w++ {
		wg.Add(1)
		go func() {
			defer wg.Done()
			e := &Exec{prog: r.prog, pkg: r.pkg, sol: newSolver(), run: r}
			defer e.sol.close()
			for {
				r.mu.Lock()
				for len(r.queue) == 0 && r.active > 0 && !r.stop {
					r.cond.Wait()
				}
				if r.stop || (len(r.queue) == 0 && r.active == 0) {
					r.mu.Unlock()
					r.cond.Broadcast()
					return
				}
				it := r.queue[len(r.queue)-1]
				r.queue = r.queue[:len(r.queue)-1]
				r.active++
				r.mu.Unlock()

				e.runPath(it)

				r.mu.Lock()
				r.active--
				r.queue = append(r.queue, e.newWork...)
				if r.cfg.stopOnEvent && !r.stop {
					for _, ev := range r.events {
						if violationKinds[ev.Kind] {
							r.stop = true
						}
					}
				}
				if r.cfg.maxPaths > 0 && r.paths >= r.cfg.maxPaths && !r.stop {
					r.stop = true
					r.limitHit = fmt.Sprintf("path budget %d exhausted with %d paths still queued", r.cfg.maxPaths, len(r.queue))
				}
				if r.cfg.wall > 0 && time.Since(r.start) > r.cfg.wall && !r.stop && (len(r.queue) > 0 || r.active > 0) {
					r.stop = true
					r.limitHit = fmt.Sprintf("wall budget %s exhausted with %d paths still queued", r.cfg.wall, len(r.queue))
				}
				r.mu.Unlock()
				r.cond.Broadcast()
			}
		}()
	}
	wg.Wait()
}

func (e *Exec) resetPath(it workItem) {
	e.decisions = append([]int32{}, it.dec...)
	e.pos = 0
	e.pc = nil
	e.nvars = 0
	e.nondet = nil
	e.observed = nil
	e.steps = 0
	e.astrSeq = 0
	e.astrVars = nil
	e.newWork = nil
	e.events = nil
	e.reachedEnd = false
	e.kfExcluded = false
	e.blind = false
	e.globals = map[*ssa.Global]*Value{}
	e.globalCells = nil // per-path: the cells belong to this path's copy of the package-level variables
	e.globalInner = nil
	e.poolItems = map[*Value][]Value{}
	e.poolOrder = nil
	e.inPool = map[*Value]string{}
	e.frozen = nil
	e.frozenMaps = nil
	e.permMaps = false
	e.havoc = false
	e.staleObjs = 0
	e.mon = [5]int64{}
	e.ts = nil
	e.analyzers = nil
	e.lastAnalyzer = nil
	e.lastSwagger = nil
	e.syncMaps = nil
	e.swAnalyzer = nil
	e.merge = nil
	e.in = newInterner()
	e.depth = 0
	e.mapSeq = 0
	for _, id := range e.atomIDs {
		atomTab.Delete(id)
	}
	e.atomIDs = nil
	if it.model != nil {
		e.setHint(it.model)
	} else {
		e.setHint(nil)
		e.hintValid = false
		e.ev = newEval(Model{})
	}
}

func (e *Exec) runPath(it workItem) {
	r := e.run
	e.resetPath(it)
	outcome := "end"
	func() {
		defer func() {
			if rec := recover(); rec != nil {
				switch rec := rec.(type) {
				case staleRead:
					outcome = "event"
					e.eventSafe("stale-read", "stale-read", "a field of a recycled object is used before being overwritten: "+rec.where)
				case pathEnd:
					outcome = "pathend:" + rec.why
				case abortT:
					outcome = "abort"
					if strings.Contains(rec.why, "unwinding bound") && (r.cfg.property == "C06" || r.cfg.property == "C07") {
						// these properties claim termination: exceeding the step / call-depth budget
						// (far above what the bounded inputs need) is reported as non-termination
						e.eventSafe("nontermination", "nontermination", rec.why)
					} else {
						e.eventSafe("abort", "abort", rec.why)
					}
				case goPanic:
					outcome = "panic"
					e.eventSafe("panic", "panic", "uncaught Go panic: "+renderStr(e.panicText(rec.v), nil))
				case threadKilled:
					outcome = "pathend:killed"
				case runtime.Error:
					// engine bug or an unsupported shape: never a verdict
					buf := make([]byte, 4000)
					n := runtime.Stack(buf, false)
					outcome = "abort"
					e.eventSafe("abort", "abort", "engine error: "+rec.Error()+" @ "+engineFrames(string(buf[:n])))
				default:
					panic(rec)
				}
			}
		}()
		for _, ip := range r.initPkgs {
			if initFn := ip.Func("init"); initFn != nil {
				e.callSSAraw(nil, initFn, nil, nil)
			}
		}
		e.callSSAraw(nil, r.fn, nil, nil)
	}()
	e.killThreads()

	// fold results into the run
	var evs []pathEvent
	if !e.kfExcluded {
		evs = append(evs, e.events...)
	}
	var wit *witness
	if e.hintValid {
		w := e.makeWitness(e.hint, outcome)
		wit = &w
	}
	r.mu.Lock()
	defer r.mu.Unlock()
	r.paths++
	r.steps += e.steps
	for i := range e.mon {
		r.mon[i] += e.mon[i]
	}
	if len(e.decisions) > r.maxDepth {
		r.maxDepth = len(e.decisions)
	}
	switch {
	case outcome == "end":
		r.ended++
	case outcome == "abort":
		r.aborted++
	case outcome == "panic":
		r.panics++
	case strings.HasPrefix(outcome, "pathend:infeasible"), strings.HasPrefix(outcome, "pathend:assume"):
		r.infeasible++
	}
	for _, ev := range evs {
		key := ev.Kind + "|" + ev.Label + "|" + ev.What
		re := r.events[key]
		if re == nil {
			re = &reportedEvent{Kind: ev.Kind, Label: ev.Label, What: ev.What}
			if ev.Model != nil {
				w := e.makeWitness(ev.Model, "event")
				re.Witness = &w
			}
			r.events[key] = re
			r.eventOrder = append(r.eventOrder, key)
		}
		re.Count++
	}
	if wit != nil && e.reachedEnd && r.cfg.witnesses > 0 {
		r.seenW++
		if len(r.witnesses) < r.cfg.witnesses {
			r.witnesses = append(r.witnesses, *wit)
		} else if k := r.rng.Intn(r.seenW); k < r.cfg.witnesses {
			r.witnesses[k] = *wit
		}
	}
	if os.Getenv("GOSX_VERBOSE") != "" {
		fmt.Fprintf(os.Stderr, "[%s] path %d outcome=%s depth=%d steps=%d queue=%d\n", r.name, r.paths, outcome, len(e.decisions), e.steps, len(r.queue))
	}
}

func (e *Exec) eventSafe(kind, label, what string) {
	defer func() {
		if rec := recover(); rec != nil {
			if _, ok := rec.(pathEnd); ok {
				return // the path turned out infeasible: no event
			}
			panic(rec)
		}
	}()
	e.merge = nil
	e.event(kind, label, what)
}

func (e *Exec) panicText(v Value) string {
	switch x := v.(type) {
	case string:
		return x
	case Iface:
		if x.T == nil {
			return "nil"
		}
		defer func() { recover() }()
		return fmt.Sprint(e.toNative(x, nil))
	}
	return fmt.Sprint(v)
}

func (e *Exec) makeWitness(m Model, outcome string) witness {
	ev := newEval(m)
	w := witness{Decisions: append([]int32{}, e.decisions...), Outcome: outcome}
	for _, nd := range e.nondet {
		t := nd.T
		bits := ev.eval(t)
		w.Nondet = append(w.Nondet, nondetVal{nd.Kind, bits, t.W})
	}
	for _, o := range e.observed {
		w.Observed = append(w.Observed, o.Name+"="+e.renderValue(o.V, ev))
	}
	return w
}

// renderValue prints an observed value under a model, mirroring the native verifObserve.
func (e *Exec) renderValue(v Value, ev *evaluator) string {
	switch x := v.(type) {
	case Iface:
		if x.T == nil {
			return "<nil>"
		}
		if t, ok := x.V.(*Term); ok && t.S == SBV {
			if b := basicOf(x.T); b != nil && isIntB(b) {
				if _, signed := intWidth(b); !signed {
					return fmt.Sprint(int64(ev.eval(t)))
				}
			}
		}
		return e.renderValue(x.V, ev)
	case *Term:
		return show(cBits(x.S, x.W, ev.eval(x)))
	case string:
		return fmt.Sprintf("%q", renderStr(x, ev))
	case []Value:
		var parts []string
		for _, y := range x {
			parts = append(parts, e.renderValue(y, ev))
		}
		return "[" + strings.Join(parts, " ") + "]"
	}
	return show(v)
}

func engineFrames(st string) string {
	var out []string
	for _, l := range strings.Split(st, "\n") {
		if strings.Contains(l, "/gosx/") {
			out = append(out, strings.TrimSpace(l))
		}
	}
	if len(out) > 8 {
		out = out[:8]
	}
	return strings.Join(out, " | ")
}

func sortedKeys(m map[string]int) []string {
	var ks []string
	for k := range m {
		ks = append(ks, k)
	}
	sort.Strings(ks)
	return ks
}

func (r *harnessRun) isInitPkg(p *ssa.Package) bool {
	for _, ip := range r.initPkgs {
		if ip == p {
			return true
		}
	}
	return false
}
