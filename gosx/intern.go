package main

// Per-path structural interning of condition terms (hash-consing on demand): structurally equal
// conditions become pointer-equal, so that (a) a branch whose condition (or its negation) is
// already part of the path condition is decided without a solver query, (b) the path condition
// holds every literal once and shared sub-terms are printed once.

type termKey struct {
	op         Op
	s          Sort
	w          int
	c          uint64
	name       string
	a0, a1, a2 *Term
}

type interner struct {
	byPtr map[*Term]*Term
	byKey map[termKey]*Term
	lits  map[*Term]bool // canonical literal -> asserted polarity
}

func newInterner() *interner {
	return &interner{byPtr: map[*Term]*Term{}, byKey: map[termKey]*Term{}, lits: map[*Term]bool{}}
}

func (in *interner) intern(t *Term) *Term {
	if c, ok := in.byPtr[t]; ok {
		return c
	}
	k := termKey{op: t.Op, s: t.S, w: t.W, c: t.C, name: t.Name}
	var args []*Term
	changed := false
	for i, a := range t.A {
		ca := in.intern(a)
		if ca != a {
			changed = true
		}
		args = append(args, ca)
		switch i {
		case 0:
			k.a0 = ca
		case 1:
			k.a1 = ca
		case 2:
			k.a2 = ca
		}
	}
	if c, ok := in.byKey[k]; ok {
		in.byPtr[t] = c
		return c
	}
	c := t
	if changed {
		c = &Term{Op: t.Op, S: t.S, W: t.W, A: args, C: t.C, Name: t.Name, FD: t.FD}
	}
	in.byKey[k] = c
	in.byPtr[t] = c
	in.byPtr[c] = c
	return c
}

// known reports whether the truth of c follows syntactically from the recorded literals.
func (in *interner) known(c *Term) (val, ok bool) {
	neg := false
	for c.Op == ONot {
		c = c.A[0]
		neg = !neg
	}
	if v, ok := in.lits[c]; ok {
		return v != neg, true
	}
	switch c.Op {
	case OAnd:
		a, oka := in.known(c.A[0])
		b, okb := in.known(c.A[1])
		if (oka && !a) || (okb && !b) {
			return neg, true
		}
		if oka && okb {
			return (a && b) != neg, true
		}
	case OOr:
		a, oka := in.known(c.A[0])
		b, okb := in.known(c.A[1])
		if (oka && a) || (okb && b) {
			return !neg, true
		}
		if oka && okb {
			return (a || b) != neg, true
		}
	}
	return false, false
}

// record notes that c holds (v=true) or fails on this path, decomposing conjunctions.
func (in *interner) record(c *Term, v bool) {
	for c.Op == ONot {
		c = c.A[0]
		v = !v
	}
	if c.conc() {
		return
	}
	in.lits[c] = v
	if (c.Op == OAnd && v) || (c.Op == OOr && !v) {
		in.record(c.A[0], v)
		in.record(c.A[1], v)
	}
}
