package main

// Registry of properties → harnesses (bounds are declared in the harnesses themselves; the text
// here is what goes into the evidence).

type harnessSpec struct {
	Name           string
	Bounds         string
	BoundsThorough string
	ThoroughOnly   bool
	MaxPaths       int
	PreemptBound   int
	NoMerge        bool
}

type propSpec struct {
	ID          string
	Harnesses   []harnessSpec
	Assumptions []string
	Outside     []string
}

var commonAssumptions = []string{
	"engine: go/ssa (x/tools v0.29.0) symbolic interpreter gosx; Go semantics as modelled (amd64 float->int conversion, IEEE-754 RNE)",
	"solvers: z3 4.8.12, cvc5 1.0.3, z3 5.1.0; a model returned by a solver is re-evaluated natively before use",
	"dependency package initialisers are not run; validate's own are",
}

func findProp(id string) *propSpec {
	for i := range props {
		if props[i].ID == id {
			p := props[i]
			p.Assumptions = append(append([]string{}, commonAssumptions...), p.Assumptions...)
			return &p
		}
	}
	return nil
}

var props = []propSpec{
	{ID: "C13",
		Harnesses: []harnessSpec{
			{Name: "HarnessC13TypedHelpers", Bounds: "Maximum/Minimum{,Int,Uint}: full 64-bit ints, all non-NaN float64; exclusive symbolic"},
			{Name: "HarnessC13MaxNative", Bounds: "12 Go numeric kinds; |value| <= 2^53, bound any non-NaN float64 in [-2^53, 2^53] (fractions, subnormals, ±0); exclusive symbolic"},
			{Name: "HarnessC13MinNative", Bounds: "12 Go numeric kinds; |value| <= 2^53, bound any non-NaN float64 in [-2^53, 2^53]; exclusive symbolic"},
			{Name: "HarnessC13MultipleOfInt", Bounds: "MultipleOfInt/Uint: |data| <= 2^31 (2^32 unsigned), 0 < factor <= 2^16"},
		},
		Assumptions: []string{"within |x| <= 2^53 an integer converts to float64 exactly, so fp comparison of float64(value) with the bound is the comparison of the mathematical values"},
		Outside:     []string{"values or bounds beyond ±2^53", "NaN bounds"},
	},
}
