package main

// Registry of properties → harnesses (bounds are declared in the harnesses themselves; the text
// here is what goes into the evidence).

type harnessSpec struct {
	Witnesses        int  // paths replayed natively (0: tier default)
	HistoryDependent bool // counterexamples depend on pool hand-over / Go map order: a native non-reproduction does not veto
	Name             string
	Bounds           string
	BoundsThorough   string
	ThoroughOnly     bool
	MaxPaths         int
	PreemptBound     int
	NoMerge          bool
}

type propSpec struct {
	ID          string
	Harnesses   []harnessSpec
	Assumptions []string
	Outside     []string
}

var commonAssumptions = []string{
	"engine: go/ssa (x/tools v0.29.0) symbolic interpreter gosx; Go semantics as modelled (amd64 float->int conversion, IEEE-754 RNE)",
	"solvers: z3 4.8.12, cvc5 1.0.3, z3 5.1.0; a model returned by a solver is re-evaluated natively before use",
	"dependency package initialisers are not run; validate's own are",
}

func findProp(id string) *propSpec {
	for i := range props {
		if props[i].ID == id {
			p := props[i]
			p.Assumptions = append(append([]string{}, commonAssumptions...), p.Assumptions...)
			return &p
		}
	}
	return nil
}

var props = []propSpec{
	{ID: "C13",
		Harnesses: []harnessSpec{
			{Name: "HarnessC13TypedHelpers", Bounds: "Maximum/Minimum{,Int,Uint}: full 64-bit ints, all non-NaN float64; exclusive symbolic"},
			{Name: "HarnessC13MaxNative", Bounds: "12 Go numeric kinds; |value| <= 2^53, bound any non-NaN float64 in [-2^53, 2^53] (fractions, subnormals, ±0); exclusive symbolic"},
			{Name: "HarnessC13MinNative", Bounds: "12 Go numeric kinds; |value| <= 2^53, bound any non-NaN float64 in [-2^53, 2^53]; exclusive symbolic"},
			{Name: "HarnessC13Validators", Bounds: "minimum/maximum (inclusive/exclusive, bounds picked from {-3,0,2,2.5,100}) through NewSchemaValidator and NewParamValidator with a fully symbolic value of each of the 12 Go numeric kinds"},
			{Name: "HarnessC13MultipleOfValidators", Bounds: "multipleOf (factor in {1,2,3,0.5,1.5}) through NewSchemaValidator and MultipleOfNativeType with picked values in each of the 10 integer kinds"},
			{Name: "HarnessC13Float32", Bounds: "float32 carriers 0.1, 0.7, 2.3, 0.001, 16777.215, 0.5 against a bound equal to their exact value or one of its float64 neighbours; helpers, schema validation, parameter validation"},
			{Name: "HarnessC13HugeBounds", Bounds: "maximum / minimum (inclusive / exclusive) picked from {1e30, -1e30, 9.3e18, -9.3e18, 1.85e19, 1e19} (beyond int64, some beyond uint64) against fully symbolic int64, int8, uint64, uint8 values; oracle in integer arithmetic; helpers and schema validation"},
			{Name: "HarnessC13MultipleOfDecimal", Bounds: "multipleOf on decimal fractions (<= 6 fractional digits): 11 values x sign x 7 factors, oracle = exact arithmetic on the values scaled by 10^6; helper, schema validation, parameter validation"},
			{Name: "HarnessC13JSONNumberWide", Bounds: "integer literals beyond 2^53 (4 picks) as json.Number vs the int64 carrying the same number; maximum / minimum at +-2^53 (inclusive / exclusive) or multipleOf 2; type number / integer / none"},
			{Name: "HarnessC13JSONNumber", Bounds: "json.Number carriers (integer literals from 7 picks incl. ±(2^53-1), fractional literals from 4 picks incl. \"3.0\") vs the float64 carrying the same number, maximum from 4 picks, type absent / number / integer"},
			{Name: "HarnessC13MultipleOfInt", Bounds: "MultipleOfInt/Uint: |data| <= 2^31 (2^32 unsigned), 0 < factor <= 2^16"},
		},
		Assumptions: []string{"within |x| <= 2^53 an integer converts to float64 exactly, so fp comparison of float64(value) with the bound is the comparison of the mathematical values"},
		Outside:     []string{"values or bounds beyond ±2^53", "NaN bounds"},
	},
	{ID: "C01",
		Harnesses: []harnessSpec{
			{Name: "HarnessSuiteFixtures", Witnesses: 400, Bounds: "differential validation of the executor and of the reference evaluator: the 260 labelled cases of /repo/fixtures/jsonschema_suite that involve no $ref / id / format, each run concretely through the engine (implementation == label, reference == label) and every one of them replayed natively"},
			{Name: "HarnessC01Type", Bounds: "type keyword: 1 type, 2 types, type+enum[1 scalar] x instance in {null, symbolic bool, fully symbolic float64 |x|<=2^53, 4 strings, [], {}, [pick]}"},
			{Name: "HarnessC01Numeric", Bounds: "minimum/maximum/exclusive* with fully symbolic float64 bounds and instance (|x|<=2^53); type absent/number with both bounds, type integer without bounds", BoundsThorough: "as quick plus type integer with both bounds"},
			{Name: "HarnessC01MultipleOfEnum", Bounds: "multipleOf in {0.5,1,2,3}, numeric enum of 1-2 values, type integer (alone or in a list) next to a maximum / minimum / multipleOf picked among integral and non-integral values; instance from 10 picked numbers or a scalar"},
			{Name: "HarnessC01String", Bounds: "type string?, min/maxLength picks 0..3, pattern in {none,^a,b$}, format date through the registry stub (known and valid symbolic); instances: 5 strings incl. non-ASCII, or a scalar"},
			{Name: "HarnessC01Array", Bounds: "items none / single L3 / tuple of 1-2 L3; additionalItems absent/true/false/L3; min/maxItems picks 0..3; uniqueItems; arrays of 0-3 elements from {pick number, \"a\"}", BoundsThorough: "tuples up to 3, arrays of 0-4 elements from {pick number, \"a\", null}, type keyword free"},
			{Name: "HarnessC01UniqueComposite", Bounds: "uniqueItems over 2 composite items drawn from 10 arrays/objects whose textual renderings coincide pairwise, plus an optional scalar"},
			{Name: "HarnessC01Object", Bounds: "properties{a:L3} + one of 12 features (second property, patternProperties, additionalProperties true/false/L3, required, min/maxProperties picks, dependencies property/schema, type); members a, ab, b, c with forked presence", BoundsThorough: "two features combined"},
			{Name: "HarnessC01ObjectSpecials", Bounds: "additionalProperties:false with members drawn from {a (declared), id, $schema, x, ids}; required [a, b] where the property a carries a default, members a / b present or absent"},
			{Name: "HarnessC01StringComposition", Bounds: "oneOf / anyOf / allOf of 2 (thorough: 2-3) string leaves drawn from {plain, format date, maxLength 3, format date + minLength 2} in every order; instance a number or one of 3 strings; format answers symbolic through the registry stub"},
			{Name: "HarnessC01Composition", Bounds: "allOf/anyOf/oneOf of 1-2 leaves of L6 (15 variants), not L6; instance scalar / [] / {}", BoundsThorough: "1-3 leaves"},
			{Name: "HarnessC01Nested", ThoroughOnly: true, Bounds: "depth 2-3 nestings: object->array->object, array->object(patternProperties)->array, allOf[object, anyOf[...]], oneOf of array schemas next to not"},
			{Name: "HarnessC01Enum", Bounds: "enum of 1-2 values from scalars, [num], {a:num}; instance likewise"},
		},
		Assumptions: []string{
			"format registry stub: ContainsName/Validates are the uninterpreted predicates knownFmt(name), fmtOK(name, s) shared with the reference evaluator; no registry knows the empty format name",
			"regexp: Go's regexp run natively on concrete patterns and concrete subjects",
			"reference evaluator ref_draft4.go (validated against the JSON-Schema-Test-Suite labels in /repo/fixtures)",
			"structural numbers are finite-domain picks; F1/F2 numbers are fully symbolic float64 with |x| <= 2^53",
		},
		Outside: []string{"$ref / definitions / remote references (the expander is not encodable)", "real format checkers and regexp semantics on symbolic strings", "Go-typed instances (C13/C16)", "nesting depth > 2", "nullable (Swagger extension)", "the 15-significant-digit restriction is not expressible in FP theory: violations in the near-integer region are one identified finding"},
	},
	{ID: "C06",
		Harnesses: []harnessSpec{
			{Name: "HarnessC06Degenerate", Bounds: "22 degenerate schema shapes (empty lists, negative/huge bounds, multipleOf<=0, invalid patterns, unknown types/formats, format next to every type, additionalItems without tuple items, nil-valued SchemaOrBool, duplicate required) x 14 instance shapes (all JSON kinds, json.Number valid/decimal/garbage/overflow, int64, duplicates) x SwaggerSchema, SkipSchemata, recycling options"},
			{Name: "HarnessC06Nested", Bounds: "the same degenerate shapes one level down (properties, items, allOf, not, additionalProperties) x nested instances"},
			{Name: "HarnessC06KeywordNames", Bounds: "member names and root paths that coincide with schema keywords (default, properties, example(s), items, type, $ref, empty) x object/array/untyped sub-schema x 4 instance shapes x SwaggerSchema / recycling options"},
			{Name: "HarnessC01Array", Bounds: "as in C01 (index arithmetic for tuple / additional items)"},
			{Name: "HarnessC01Composition", Bounds: "as in C01 (reflection on possibly nil data)", ThoroughOnly: true},
		},
		Assumptions: []string{"termination is bounded: every path finishes within the step budget (3e6 SSA instructions); recursion depth is bounded by schema depth because $ref is absent"},
		Outside:     []string{"$ref cycles", "nesting depth > 2", "struct-typed instances (swag.ToDynamicJSON)"},
	},
}
