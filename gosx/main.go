package main

import (
	"encoding/json"
	"flag"
	"fmt"
	"os"
	"runtime"
	"runtime/debug"
	"runtime/pprof"
	"sort"
	"strconv"
	"strings"
	"time"
)

func defaultCfg(tier string) runConfig {
	cfg := runConfig{feasMs: 1000, oblMs: 60000, maxSteps: 3_000_000, maxPaths: 200_000, wall: 10 * time.Minute,
		mergeOn: true, preemptBound: 2, workers: runtime.NumCPU(), witnesses: 3}
	if tier == "thorough" {
		cfg.oblMs = 300000
		cfg.cross = true
		cfg.witnesses = 20
		cfg.wall = 40 * time.Minute
		cfg.maxPaths = 2_000_000
		cfg.preemptBound = 3
	}
	if s := os.Getenv("VERIF_SEED"); s != "" {
		if v, err := strconv.ParseInt(s, 10, 64); err == nil {
			cfg.seed = v
		}
	}
	return cfg
}

func main() {
	if len(os.Args) < 2 {
		fmt.Println("usage: gosx run <Harness> | check <ID> [--tier quick|thorough] | replay <path> | selftest")
		os.Exit(2)
	}
	debug.SetGCPercent(200)        // the SSA program is a large, static heap: collect less often
	debug.SetMemoryLimit(10 << 30) // ... but stay well inside the machine (background runs are capped at 16 GB)
	if d := os.Getenv("VERIF_DIR"); d != "" {
		verifDir = d
	}
	if at := os.Getenv("GOSX_MEMPROF_AT"); at != "" { // debugging aid: heap profile after N seconds
		if secs, err := strconv.Atoi(at); err == nil {
			go func() {
				time.Sleep(time.Duration(secs) * time.Second)
				runtime.GC()
				f, _ := os.Create("/tmp/gosx_heap_at.out")
				pprof.WriteHeapProfile(f)
				f.Close()
			}()
		}
	}
	switch os.Args[1] {
	case "run":
		if pf := os.Getenv("GOSX_PROF"); pf != "" {
			f, _ := os.Create(pf)
			pprof.StartCPUProfile(f)
			defer pprof.StopCPUProfile()
		}
		fs := flag.NewFlagSet("run", flag.ExitOnError)
		tier := fs.String("tier", "quick", "")
		workers := fs.Int("workers", runtime.NumCPU(), "")
		trace := fs.Bool("trace", false, "")
		nomerge := fs.Bool("nomerge", false, "")
		maxPaths := fs.Int("maxpaths", 0, "")
		jsonOut := fs.Bool("json", false, "")
		fs.Parse(os.Args[3:])
		l, err := loadRepo()
		if err != nil {
			fmt.Println("INCONCLUSIVE", err)
			os.Exit(3)
		}
		fn, pkg := l.harness(os.Args[2])
		if fn == nil {
			fmt.Println("no harness", os.Args[2])
			os.Exit(3)
		}
		cfg := defaultCfg(*tier)
		if *tier == "thorough" {
			cfg.tierN = 1
		}
		cfg.workers = *workers
		cfg.trace = *trace
		if *nomerge {
			cfg.mergeOn = false
		}
		if *maxPaths > 0 {
			cfg.maxPaths = *maxPaths
		}
		r := newHarnessRun(l.prog, pkg, fn, cfg)
		r.initPkgs = l.initPkgs(pkg)
		r.explore()
		if mp := os.Getenv("GOSX_MEMPROF"); mp != "" {
			f, _ := os.Create(mp)
			pprof.WriteHeapProfile(f)
			f.Close()
		}
		if *jsonOut {
			b, _ := json.MarshalIndent(r.summary(), "", " ")
			fmt.Println(string(b))
		} else {
			r.printSummary(l.loadSecs)
		}
	case "check":
		os.Exit(cmdCheck(os.Args[2:]))
	case "replay":
		os.Exit(cmdReplay(os.Args[2:]))
	case "selftest":
		os.Exit(cmdSelftest(os.Args[2:]))
	case "list": // the registry as markdown (pasted into DESIGN.md section 12)
		ids := []string{}
		for _, p := range props {
			ids = append(ids, p.ID)
		}
		sort.Strings(ids)
		for _, id := range ids {
			p := findProp(id)
			fmt.Printf("**%s**\n\n", id)
			for _, h := range p.Harnesses {
				extra := ""
				if h.ThoroughOnly {
					extra = " *(thorough only)*"
				}
				if h.BoundsThorough != "" {
					extra += " *(thorough: " + h.BoundsThorough + ")*"
				}
				fmt.Printf("* `%s`%s — %s\n", h.Name, extra, h.Bounds)
			}
			if len(p.Outside) > 0 {
				fmt.Printf("* outside the claim: %s\n", strings.Join(p.Outside, "; "))
			}
			fmt.Println()
		}
	default:
		fmt.Println("unknown command", os.Args[1])
		os.Exit(2)
	}
}

func (r *harnessRun) printSummary(loadSecs float64) {
	gStats.Lock()
	q, sat, unsat, unk, errs, ns := gStats.queries, gStats.sat, gStats.unsat, gStats.unknown, gStats.errs, gStats.nanos
	gStats.Unlock()
	fmt.Printf("harness=%s load=%.1fs explore=%.2fs paths=%d ended=%d infeasible=%d aborted=%d panics=%d steps=%d depth=%d funcs=%d externs=%d\n",
		r.name, loadSecs, time.Since(r.start).Seconds(), r.paths, r.ended, r.infeasible, r.aborted, r.panics, r.steps, r.maxDepth, len(r.funcs), len(r.externs))
	fmt.Printf("solver: queries=%d sat=%d unsat=%d unknown=%d errors=%d time=%.2fs unknownFeas=%d summaries=%d(%d paths) stale=%d\n",
		q, sat, unsat, unk, errs, float64(ns)/1e9, r.unknownFeas, r.summaries, r.summaryPaths, r.staleObjs)
	for l, m := range r.obl {
		fmt.Printf("obligation %-40s %v\n", l, m)
	}
	fmt.Printf("reach: %v\n", r.reaches)
	if r.limitHit != "" {
		fmt.Println("LIMIT:", r.limitHit)
	}
	for _, k := range r.eventOrder {
		ev := r.events[k]
		fmt.Printf("EVENT %s [%s] x%d: %s\n", ev.Kind, ev.Label, ev.Count, ev.What)
		if ev.Witness != nil {
			b, _ := json.Marshal(ev.Witness)
			fmt.Printf("   witness: %s\n", string(b))
		}
	}
	for i, w := range r.witnesses {
		if i >= 3 {
			break
		}
		b, _ := json.Marshal(w)
		fmt.Printf("sample path: %s\n", string(b))
	}
}
