package main

import (
	"go/token"
	"go/types"
	"math"
	"math/rand"
	"strconv"
	"testing"
	"unicode/utf8"
)

// Finite-domain tables: random expressions over picks and Boolean selectors must evaluate, under
// every assignment, to what the pointwise computation gives.
func TestFDTablesAgainstBruteForce(t *testing.T) {
	rng := rand.New(rand.NewSource(1))
	f64 := types.Typ[types.Float64]
	for iter := 0; iter < 3000; iter++ {
		p := mkVar(SBV, 8, "p")
		q := mkVar(SBV, 8, "q")
		b := mkVar(SBool, 0, "b")
		vals := func(n int) []*Term {
			out := make([]*Term, n)
			for i := range out {
				out[i] = cFP(float64(rng.Intn(5))-1+0.5*float64(rng.Intn(2)), 64)
			}
			return out
		}
		np, nq := 2+rng.Intn(5), 2+rng.Intn(5)
		x := fdPick(p, vals(np))
		y := fdPick(q, vals(nq))
		ops := []token.Token{token.ADD, token.SUB, token.MUL, token.LSS, token.GTR, token.LEQ, token.EQL}
		var build func(d int) *Term
		build = func(d int) *Term {
			if d == 0 {
				switch rng.Intn(3) {
				case 0:
					return x
				case 1:
					return y
				}
				return cFP(float64(rng.Intn(4)), 64)
			}
			l, r := build(d-1), build(d-1)
			if l.S != SFP || r.S != SFP {
				if l.S == SBool && r.S == SBool {
					if rng.Intn(2) == 0 {
						return andT(l, notT(r))
					}
					return orT(l, r)
				}
				if l.S == SBool {
					return iteT(l, x, y)
				}
				return iteT(r, y, x)
			}
			switch rng.Intn(4) {
			case 0:
				return iteT(b, l, r)
			case 1:
				return iteT(termBinop(token.LSS, l, r, f64), l, r)
			}
			return termBinop(ops[rng.Intn(len(ops))], l, r, f64)
		}
		e := build(1 + rng.Intn(3))
		// reference: rebuild the same expression on constants? not available structurally, so compare the
		// table-based term with its own plain expansion semantics through two evaluators: model evaluation
		// of the term must equal pointwise evaluation obtained by substituting constants into the selectors
		for pi := 0; pi < np; pi++ {
			for qi := 0; qi < nq; qi++ {
				for bi := 0; bi < 2; bi++ {
					m := Model{"p": uint64(pi), "q": uint64(qi), "b": uint64(bi)}
					got := newEval(m).eval(e)
					// substitute: evaluate the finite-domain table directly
					if e.FD != nil {
						row := 0
						for i, sl := range e.FD.sels {
							v := int(newEval(m).eval(sl))
							row = row*e.FD.doms[i] + v
						}
						if e.FD.vals[row] != got {
							t.Fatalf("iter %d: table row %d = %x but expansion evaluates to %x", iter, row, e.FD.vals[row], got)
						}
					}
				}
			}
		}
	}
}

// The two sides of one comparison over independent picks must stay independent.
func TestFDIndependentPicks(t *testing.T) {
	f64 := types.Typ[types.Float64]
	p, q := mkVar(SBV, 8, "p"), mkVar(SBV, 8, "q")
	mkNum := func(v *Term) *Term {
		return fdPick(v, []*Term{cFP(-1, 64), cFP(0, 64), cFP(1, 64), cFP(1.5, 64), cFP(2, 64), cFP(3, 64)})
	}
	x, y := mkNum(p), mkNum(q)
	cx := termBinop(token.GTR, x, cFP(2, 64), f64)
	cy := termBinop(token.GTR, y, cFP(2, 64), f64)
	for pi := 0; pi < 6; pi++ {
		for qi := 0; qi < 6; qi++ {
			m := Model{"p": uint64(pi), "q": uint64(qi)}
			ev := newEval(m)
			if (ev.eval(cx) != 0) != (pi == 5) || (ev.eval(cy) != 0) != (qi == 5) {
				t.Fatalf("p=%d q=%d cx=%d cy=%d", pi, qi, ev.eval(cx), ev.eval(cy))
			}
			both := andT(notT(cx), cy)
			if (ev.eval(both) != 0) != (pi != 5 && qi == 5) {
				t.Fatalf("and/not wrong at p=%d q=%d", pi, qi)
			}
		}
	}
}

// the rune-count contract model against the real decoder: exhaustive over all strings of <= 2 bytes,
// and over a boundary alphabet for 3 and 4 bytes
func TestBstrRuneCountAgainstStdlib(t *testing.T) {
	alpha := []byte{0x00, 0x41, 0x7F, 0x80, 0x8F, 0x90, 0x9F, 0xA0, 0xBF, 0xC0, 0xC1, 0xC2, 0xDF, 0xE0, 0xE1, 0xEC, 0xED, 0xEE, 0xEF, 0xF0, 0xF1, 0xF3, 0xF4, 0xF5, 0xFF}
	check := func(bs []byte) {
		s := make(BStr, len(bs))
		for i, b := range bs {
			s[i] = cBV(uint64(b), 8)
		}
		got := bstrRuneCount(s)
		if !got.conc() || int(got.u()) != utf8.RuneCountInString(string(bs)) {
			t.Fatalf("%x: model %v, stdlib %d", bs, got.u(), utf8.RuneCountInString(string(bs)))
		}
	}
	check(nil)
	for a := 0; a < 256; a++ {
		check([]byte{byte(a)})
		for b := 0; b < 256; b++ {
			check([]byte{byte(a), byte(b)})
		}
	}
	for _, a := range alpha {
		for _, b := range alpha {
			for _, c := range alpha {
				check([]byte{a, b, c})
				for _, d := range alpha {
					check([]byte{a, b, c, d})
				}
			}
		}
	}
}

// the ConvertFloat32 contract: which float64 values survive FormatFloat -> ParseFloat(.., 32)
func TestFloat32RangeContract(t *testing.T) {
	ok := func(x float64) bool {
		_, err := strconv.ParseFloat(strconv.FormatFloat(x, 'f', -1, 64), 32)
		return err == nil
	}
	h := float32Halfway
	if h != math.MaxFloat32+math.Pow(2, 103) {
		t.Fatal("halfway constant")
	}
	for _, c := range []struct {
		x    float64
		want bool
	}{{math.MaxFloat32, true}, {math.Nextafter(math.MaxFloat32, math.Inf(1)), true}, {math.Nextafter(h, 0), true}, {h, true}, {-h, true},
		{math.Nextafter(h, math.Inf(1)), false}, {-math.Nextafter(h, math.Inf(1)), false}, {1e39, false}, {math.MaxFloat64, false},
		{math.Inf(1), true}, {math.Inf(-1), true}, {math.NaN(), true}, {0, true}, {5e-324, true}} {
		if ok(c.x) != c.want {
			t.Fatalf("%v: stdlib %v, contract %v", c.x, ok(c.x), c.want)
		}
	}
}

// floor / ceil / round models against package math on a boundary list (evaluated through the term evaluator)
func TestRoundingModels(t *testing.T) {
	xs := []float64{0, -0.0, 0.5, -0.5, 0.49999999999999994, -0.49999999999999994, 1.5, 2.5, -2.5, 28.999999999999996, 1e15 + 0.5, 4503599627370496.5, 4503599627370497, -4503599627370495.5, 1e300, -1e300, math.Inf(1), math.Inf(-1), 5e-324, 0.9999999999999999, -1.0000000000000002}
	for _, x := range xs {
		v := &Term{Op: OVar, S: SBV, W: 64, Name: "x"}
		fx := mk(OFpOfBits, 0, v)
		ev := newEval(Model{"x": math.Float64bits(x)})
		check := func(name string, want float64) {
			got := externals[name](nil, nil, []Value{fx}).(*Term)
			bits := ev.eval(got)
			if bits != math.Float64bits(want) {
				t.Fatalf("%s(%v): model %v, math %v", name, x, math.Float64frombits(bits), want)
			}
		}
		check("math.Floor", math.Floor(x))
		check("math.Ceil", math.Ceil(x))
		check("math.Round", math.Round(x))
	}
}
