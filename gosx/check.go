package main

import (
	"bytes"
	"crypto/sha256"
	"encoding/json"
	"flag"
	"fmt"
	"os"
	"os/exec"
	"path/filepath"
	"sort"
	"strings"
	"time"

	"golang.org/x/tools/go/ssa"
)

func (l *loaded) initPkgs(pkg *ssa.Package) []*ssa.Package {
	if pkg == l.validate {
		return []*ssa.Package{l.validate}
	}
	return []*ssa.Package{l.validate, pkg}
}

// ---------- known findings ----------

type kfEntry struct {
	Property  string `json:"property"`
	ID        string `json:"id"`
	Harness   string `json:"harness"`
	Assertion string `json:"assertion"` // label of the assertion / monitor expected to fire inside the region
	Region    string `json:"region"`    // name of the Go predicate in the harness that delimits the finding
	What      string `json:"what"`
}

type kfFile struct {
	Open  []kfEntry `json:"open"`
	Fixed []string  `json:"fixed"`
}

func loadKF() kfFile {
	var k kfFile
	b, err := os.ReadFile(filepath.Join(verifDir, "known_findings.json"))
	if err == nil {
		json.Unmarshal(b, &k)
	}
	return k
}

// ---------- run summaries ----------

type harnessSummary struct {
	Name         string                    `json:"name"`
	Bounds       string                    `json:"bounds"`
	Pass         string                    `json:"pass"` // main | confirm:<kf>
	Paths        int                       `json:"paths"`
	Ended        int                       `json:"paths_reaching_end"`
	Infeasible   int                       `json:"paths_infeasible"`
	Aborted      int                       `json:"paths_aborted"`
	Steps        int64                     `json:"ssa_instructions_executed"`
	MaxDepth     int                       `json:"max_decision_depth"`
	Obligations  map[string]map[string]int `json:"obligations"`
	Reach        map[string]int            `json:"reach"`
	Events       []*reportedEvent          `json:"events,omitempty"`
	Limit        string                    `json:"limit_hit,omitempty"`
	UnknownFeas  int                       `json:"feasibility_unknown_treated_feasible"`
	Summaries    int                       `json:"pure_callee_summaries"`
	StaleObjects int                       `json:"stale_objects_handed_out"`
	Monitors     map[string]int64          `json:"monitor_checks"` // what the monitors looked at on the explored paths (each is an implicit obligation: an event would be a violation)
	WallS        float64                   `json:"wall_s"`
	Functions    int                       `json:"functions_encoded"`
}

func (r *harnessRun) summary() *harnessSummary {
	s := &harnessSummary{Name: r.name, Paths: r.paths, Ended: r.ended, Infeasible: r.infeasible, Aborted: r.aborted, Steps: r.steps,
		MaxDepth: r.maxDepth, Obligations: r.obl, Reach: r.reaches, Limit: r.limitHit, UnknownFeas: r.unknownFeas,
		Summaries: r.summaries, StaleObjects: r.staleObjs, WallS: time.Since(r.start).Seconds(), Functions: len(r.funcs)}
	for _, k := range r.eventOrder {
		s.Events = append(s.Events, r.events[k])
	}
	s.Monitors = map[string]int64{"panic_free_paths": int64(r.ended)}
	for i, n := range []string{"stores_checked_against_frozen_cells", "pool_puts_checked", "pool_gets_modelled", "accesses_checked_against_pooled_objects", "accesses_race_checked"} {
		if r.mon[i] > 0 {
			s.Monitors[n] = r.mon[i]
		}
	}
	return s
}

var violationKinds = map[string]bool{"violation": true, "panic": true, "stale-read": true, "double-put": true, "use-after-put": true, "escape": true, "frame": true, "race": true, "nontermination": true}

// ---------- native replay ----------

type nativeCase struct {
	Harness string      `json:"harness"`
	Idx     int         `json:"idx"`
	Tier    int         `json:"tier"`
	Prop    string      `json:"prop"`
	Nondet  []nondetVal `json:"nondet"`
}

type nativeResult struct {
	Harness  string   `json:"harness"`
	Idx      int      `json:"idx"`
	Observed []string `json:"observed"`
	Failed   []string `json:"failed"`
	Outcome  string   `json:"outcome"`
}

// runNative compiles the harnesses with the ordinary compiler (overlay into /repo, nothing written
// there) and runs the given cases; pkgDir is "." or "./post".
func runNative(l *loaded, pkgDir string, cases []nativeCase, workDir string) ([]nativeResult, string, error) {
	os.MkdirAll(workDir, 0o755)
	caseFile := filepath.Join(workDir, "cases.json")
	b, _ := json.Marshal(cases)
	os.WriteFile(caseFile, b, 0o644)
	// harness table
	pkg := l.validate
	pkgName, target := "validate", repoDir
	if pkgDir == "./post" {
		pkg, pkgName, target = l.post, "post", filepath.Join(repoDir, "post")
	}
	var names []string
	for n, m := range pkg.Members {
		if f, ok := m.(*ssa.Function); ok && strings.HasPrefix(n, "Harness") && f.Signature.Params().Len() == 0 {
			names = append(names, n)
		}
	}
	sort.Strings(names)
	var tb strings.Builder
	fmt.Fprintf(&tb, "//go:build verif && verifnative\n\npackage %s\n\nimport (\n\t\"os\"\n\t\"testing\"\n)\n\nfunc TestVerifReplay(t *testing.T) {\n\tverifNativeRunAll(os.Getenv(\"VERIF_REPLAY_FILE\"), map[string]func(){\n", pkgName)
	for _, n := range names {
		fmt.Fprintf(&tb, "\t\t%q: %s,\n", n, n)
	}
	tb.WriteString("\t})\n}\n")
	testFile := filepath.Join(workDir, "replay_test.go")
	os.WriteFile(testFile, []byte(tb.String()), 0o644)
	ov := map[string]string{}
	for virt, real := range l.overlay {
		if real == "" {
			real = filepath.Join(workDir, "gen_"+filepath.Base(virt))
			os.WriteFile(real, l.ovBytes[virt], 0o644)
		}
		ov[virt] = real
	}
	ov[filepath.Join(target, "zz_verif_replay_test.go")] = testFile
	ovb, _ := json.Marshal(map[string]interface{}{"Replace": ov})
	ovFile := filepath.Join(workDir, "overlay.json")
	os.WriteFile(ovFile, ovb, 0o644)
	cmd := exec.Command("go", "test", "-mod=readonly", "-vet=off", "-count=1", "-tags", "verif,verifnative", "-overlay", ovFile, "-run", "^TestVerifReplay$", "-v", "-timeout", "20m", pkgDir)
	cmd.Dir = repoDir
	cmd.Env = append(os.Environ(), "GOFLAGS=", "GOPROXY=off", "GOSUMDB=off", "GOTOOLCHAIN=local", "VERIF_REPLAY_FILE="+caseFile)
	var out bytes.Buffer
	cmd.Stdout, cmd.Stderr = &out, &out
	err := cmd.Run()
	var res []nativeResult
	for _, line := range strings.Split(out.String(), "\n") {
		if i := strings.Index(line, "VERIF-NATIVE {"); i >= 0 {
			var r nativeResult
			if json.Unmarshal([]byte(line[i+len("VERIF-NATIVE "):]), &r) == nil {
				res = append(res, r)
			}
		}
	}
	if len(res) != len(cases) {
		if err == nil {
			err = fmt.Errorf("native run produced %d results for %d cases", len(res), len(cases))
		}
		return res, out.String(), err
	}
	return res, out.String(), nil
}

func sameStrs(a, b []string) bool {
	if len(a) != len(b) {
		return false
	}
	for i := range a {
		if a[i] != b[i] {
			return false
		}
	}
	return true
}

// ---------- the check command ----------

type violationOut struct {
	HistoryDependent bool
	Harness          string
	Event            *reportedEvent
	Replay           string
	Native           string // reproduced | engine-only | not-reproduced
}

func cmdCheck(args []string) int {
	if len(args) < 1 {
		fmt.Println("usage: gosx check <ID> [--tier quick|thorough]")
		return 2
	}
	id := args[0]
	fs := flag.NewFlagSet("check", flag.ExitOnError)
	tier := fs.String("tier", "", "")
	only := fs.String("only", "", "run only this harness (debugging; no evidence written)")
	noNative := fs.Bool("no-native", false, "skip native witness replay (debugging)")
	fs.Parse(args[1:])
	if *tier == "" {
		*tier = os.Getenv("VERIF_TIER")
	}
	if *tier != "thorough" {
		*tier = "quick"
	}
	prop := findProp(id)
	if prop == nil {
		fmt.Println("unknown property", id)
		return 2
	}
	t0 := time.Now()
	h0 := fileHash(filepath.Join(repoDir, "go.mod")) + fileHash(filepath.Join(repoDir, "go.sum"))
	l, err := loadRepo()
	if err != nil {
		fmt.Printf("INCONCLUSIVE property=%s %v\n", id, err)
		return 3
	}
	kf := loadKF()
	open := map[string]bool{}
	for _, k := range kf.Open {
		if k.Property == id {
			open[k.ID] = true
		}
	}
	tierN := 0
	if *tier == "thorough" {
		tierN = 1
	}
	var sums []*harnessSummary
	var viols []violationOut
	var inconclusive []string
	var knownLines []string
	var allWitness []nativeCase
	witnessOf := map[string]witness{}
	funcsAll := map[string]int{}
	externsAll := map[string]int{}
	stubsAll := map[string]int{}
	var states, transitions int64
	totalObl, totalDischarged := 0, 0
	var samples []interface{}

	for _, hs := range prop.Harnesses {
		if hs.ThoroughOnly && tierN == 0 {
			continue
		}
		if *only != "" && *only != hs.Name {
			continue
		}
		fn, pkg := l.harness(hs.Name)
		if fn == nil {
			fmt.Printf("INCONCLUSIVE property=%s harness %s not found\n", id, hs.Name)
			return 3
		}
		passes := []string{""}
		for _, k := range kf.Open {
			if k.Property == id && k.Harness == hs.Name {
				passes = append(passes, k.ID)
			}
		}
		for _, pass := range passes {
			cfg := defaultCfg(*tier)
			cfg.tierN = tierN
			cfg.property = id
			cfg.kfOpen = open
			cfg.kfConfirm = pass
			if hs.MaxPaths > 0 {
				cfg.maxPaths = hs.MaxPaths
			}
			if hs.PreemptBound > 0 {
				cfg.preemptBound = hs.PreemptBound + tierN
			}
			if hs.NoMerge {
				cfg.mergeOn = false
			}
			if hs.Witnesses > 0 {
				cfg.witnesses = hs.Witnesses
			}
			if pass != "" {
				cfg.stopOnEvent = true
				cfg.witnesses = 0
				cfg.cross = false
			}
			r := newHarnessRun(l.prog, pkg, fn, cfg)
			r.initPkgs = l.initPkgs(pkg)
			r.explore()
			s := r.summary()
			s.Bounds = hs.Bounds
			if tierN == 1 && hs.BoundsThorough != "" {
				s.Bounds = hs.BoundsThorough
			}
			s.Pass = "main"
			if pass != "" {
				s.Pass = "confirm:" + pass
			}
			sums = append(sums, s)
			states += int64(r.paths)
			transitions += r.steps
			for f, n := range r.funcs {
				funcsAll[f] = n
			}
			for f, n := range r.externs {
				externsAll[f] += n
			}
			for f, n := range r.stubs {
				stubsAll[f] += n
			}
			for _, m := range r.obl {
				for res, n := range m {
					totalObl += n
					if res == "unsat" || res == "trivial" {
						totalDischarged += n
					}
				}
			}
			if pass == "" {
				if r.limitHit != "" {
					inconclusive = append(inconclusive, hs.Name+": "+r.limitHit)
				}
				if r.reaches["end"] == 0 {
					inconclusive = append(inconclusive, hs.Name+": vacuous (no path reaches the end of the harness)")
				}
				for _, k := range r.eventOrder {
					ev := r.events[k]
					switch {
					case violationKinds[ev.Kind]:
						viols = append(viols, violationOut{Harness: hs.Name, Event: ev, HistoryDependent: hs.HistoryDependent})
					default:
						inconclusive = append(inconclusive, fmt.Sprintf("%s: %s [%s] %s", hs.Name, ev.Kind, ev.Label, ev.What))
					}
				}
				for i, w := range r.witnesses {
					key := fmt.Sprintf("%s#%d", hs.Name, len(allWitness))
					_ = i
					witnessOf[key] = w
					allWitness = append(allWitness, nativeCase{Harness: hs.Name, Idx: len(allWitness), Tier: tierN, Prop: id, Nondet: w.Nondet})
					if len(samples) < 6 {
						samples = append(samples, map[string]interface{}{"harness": hs.Name, "path_decisions": w.Decisions, "model": w.Nondet, "observed": w.Observed})
					}
				}
			} else {
				// confirmation pass of a known finding: the listed assertion must be violated inside the region
				var entry kfEntry
				for _, k := range kf.Open {
					if k.ID == pass {
						entry = k
					}
				}
				found := false
				for _, k := range r.eventOrder {
					ev := r.events[k]
					if violationKinds[ev.Kind] && (entry.Assertion == "" || ev.Label == entry.Assertion) {
						found = true
					}
				}
				if found {
					knownLines = append(knownLines, fmt.Sprintf("KNOWN-FINDING: property=%s %s %s", id, pass, entry.What))
				} else {
					s.Limit += " [known finding " + pass + " did not reproduce in its region]"
				}
			}
		}
	}

	// go.mod / go.sum guard
	if h1 := fileHash(filepath.Join(repoDir, "go.mod")) + fileHash(filepath.Join(repoDir, "go.sum")); h1 != h0 {
		inconclusive = append(inconclusive, "go.mod/go.sum of /repo changed during the run")
	}

	// native replay: witnesses (engine prediction must equal native outcome) and counterexamples
	validated := 0
	nativeNote := ""
	scratch, _ := os.MkdirTemp("", "gosx-native-")
	defer os.RemoveAll(scratch)
	if !*noNative && *only == "" || (!*noNative && *only != "") {
		var cases []nativeCase
		cases = append(cases, allWitness...)
		base := len(cases)
		// a counterexample may depend on what the native run cannot be forced into (Go's random map
		// order, sync.Pool hand-over): it is replayed nativeTries times and counts as reproduced if
		// any run reproduces it
		const nativeTries = 30
		for i, v := range viols {
			if v.Event.Witness != nil {
				for k := 0; k < nativeTries; k++ {
					cases = append(cases, nativeCase{Harness: v.Harness, Idx: base + i*nativeTries + k, Tier: tierN, Prop: id, Nondet: v.Event.Witness.Nondet})
				}
			}
		}
		byPkg := map[string][]nativeCase{}
		for _, c := range cases {
			_, pkg := l.harness(c.Harness)
			d := "."
			if pkg == l.post {
				d = "./post"
			}
			byPkg[d] = append(byPkg[d], c)
		}
		results := map[int]nativeResult{}
		for d, cs := range byPkg {
			res, out, err := runNative(l, d, cs, filepath.Join(scratch, strings.ReplaceAll(d, "/", "_")))
			if err != nil {
				tail := out
				if len(tail) > 3000 {
					tail = tail[len(tail)-3000:]
				}
				inconclusive = append(inconclusive, "native replay build/run failed: "+err.Error()+"\n"+tail)
			}
			for _, r := range res {
				results[r.Idx] = r
			}
		}
		for _, c := range allWitness {
			r, ok := results[c.Idx]
			if !ok {
				continue
			}
			w := witnessOf[fmt.Sprintf("%s#%d", c.Harness, c.Idx)]
			if r.Outcome == "end" && sameStrs(r.Observed, w.Observed) && len(r.Failed) == 0 {
				validated++
			} else {
				inconclusive = append(inconclusive, fmt.Sprintf("witness replay mismatch in %s: engine predicted %v, native run gave %v failed=%v outcome=%s (engine or stub bug)", c.Harness, w.Observed, r.Observed, r.Failed, r.Outcome))
			}
		}
		for i := range viols {
			v := &viols[i]
			r, ok := results[base+i*nativeTries]
			for k := 0; k < nativeTries; k++ {
				if rk, okk := results[base+i*nativeTries+k]; okk {
					if ((v.Event.Kind == "violation" || v.Event.Kind == "frame") && contains(rk.Failed, v.Event.Label)) || (v.Event.Kind == "panic" && strings.HasPrefix(rk.Outcome, "panic:")) {
						r, ok = rk, true
						break
					}
				}
			}
			switch {
			case v.Event.Witness == nil || !ok:
				v.Native = "engine-only"
			case v.Event.Kind == "violation":
				if contains(r.Failed, v.Event.Label) {
					v.Native = "reproduced"
				} else if hasEngineChoice(v.Event.Witness) || v.HistoryDependent {
					// the counterexample depends on a schedule / map order / stale pool state chosen by the
					// solver, which a native run cannot be forced into: reported as engine-level
					v.Native = "engine-only"
				} else {
					v.Native = "not-reproduced"
				}
			case v.Event.Kind == "panic":
				if strings.HasPrefix(r.Outcome, "panic:") {
					v.Native = "reproduced"
				} else {
					v.Native = "not-reproduced"
				}
			case v.Event.Kind == "frame" && contains(r.Failed, v.Event.Label):
				v.Native = "reproduced" // the native twin of the frame monitor saw a net change of the frozen value
			default:
				v.Native = "engine-only" // monitor events (pool ownership, staleness, race; frame events without a net change) have no native observable
			}
			if ok {
				v.Event.Inputs = append(v.Event.Inputs, "native: outcome="+r.Outcome+" failed="+strings.Join(r.Failed, ",")+" observed="+strings.Join(r.Observed, ";"))
			}
		}
	} else {
		nativeNote = "native replay skipped"
	}

	// write replays and decide
	exit := 0
	var lines []string
	reported := 0
	for _, v := range viols {
		if v.Native == "not-reproduced" {
			inconclusive = append(inconclusive, fmt.Sprintf("%s: counterexample for [%s] did not reproduce natively (engine or stub bug): %s", v.Harness, v.Event.Label, strings.Join(v.Event.Inputs, " | ")))
			continue
		}
		dir := filepath.Join(verifDir, "replays", id)
		os.MkdirAll(dir, 0o755)
		body, _ := json.MarshalIndent(map[string]interface{}{"property": id, "harness": v.Harness, "tier": tierN, "kind": v.Event.Kind, "label": v.Event.Label,
			"what": v.Event.What, "native": v.Native, "witness": v.Event.Witness, "notes": v.Event.Inputs}, "", " ")
		name := fmt.Sprintf("%s-%s-%.8x.json", v.Harness, sanitize(v.Event.Label), sha256.Sum256([]byte(v.Event.What+v.Event.Label)))
		path := filepath.Join(dir, name)
		os.WriteFile(path, body, 0o644)
		lines = append(lines, fmt.Sprintf("VIOLATION property=%s replay=%s", id, path))
		fmt.Printf("  %s [%s/%s] x%d (%s): %s\n", v.Harness, v.Event.Kind, v.Event.Label, v.Event.Count, v.Native, v.Event.What)
		reported++
	}
	for _, kl := range knownLines {
		fmt.Println(kl)
	}
	for _, ln := range lines {
		fmt.Println(ln)
	}
	if reported > 0 {
		exit = 1
	} else if len(inconclusive) > 0 {
		exit = 3
		for _, s := range inconclusive {
			fmt.Printf("INCONCLUSIVE property=%s %s\n", id, s)
		}
	}

	// evidence
	gStats.Lock()
	solver := map[string]interface{}{"queries": gStats.queries, "sat": gStats.sat, "unsat": gStats.unsat, "unknown": gStats.unknown, "errors": gStats.errs,
		"by_backend": gStats.byKind, "solver_seconds": float64(gStats.nanos) / 1e9,
		"versions": "z3 4.8.12 (BV/UF first), cvc5 1.0.3 (FP first), z3 5.1.0 (third opinion)"}
	gStats.Unlock()
	var fnames []string
	for f, n := range funcsAll {
		fnames = append(fnames, fmt.Sprintf("%s (%d instr)", f, n))
	}
	sort.Strings(fnames)
	if len(samples) == 0 {
		for _, s := range sums {
			samples = append(samples, map[string]interface{}{"harness": s.Name, "obligations": s.Obligations})
		}
	}
	assumptions := append([]string{}, prop.Assumptions...)
	for s := range stubsAll {
		assumptions = append(assumptions, "stub: "+s)
	}
	sort.Strings(assumptions)
	var kfNotes []string
	kfNotes = append(kfNotes, knownLines...)
	monTotal := map[string]int64{}
	for _, sm := range sums {
		for k, v := range sm.Monitors {
			monTotal[k] += v
		}
	}
	ev := map[string]interface{}{
		"property_id": id, "tier": *tier, "seed": defaultCfg(*tier).seed, "level": "model_checking",
		"coverage": map[string]interface{}{
			"states": states, "transitions": transitions, "traces_validated_against_impl": validated, "samples": samples,
			"explanation":               "bounded symbolic execution of the real go/ssa of /repo (regenerated on this run); states = symbolic paths explored, transitions = SSA instructions executed symbolically; every obligation is a solver query pc ∧ ¬assertion; monitor_checks counts what the panic / frame / pool-ownership / race monitors examined on those paths (an event of theirs is a violation without a query)",
			"monitor_checks":            monTotal,
			"obligations":               totalObl,
			"discharged":                totalDischarged,
			"harnesses":                 sums,
			"functions_encoded":         fnames,
			"intrinsics_used":           externsAll,
			"stubs_used":                stubsAll,
			"solver":                    solver,
			"known_findings_reproduced": kfNotes,
			"inconclusive":              inconclusive,
			"native_replay":             nativeNote,
			"outside_the_claim":         prop.Outside,
			"load_seconds":              l.loadSecs,
		},
		"assumptions": assumptions,
		"wall_s":      time.Since(t0).Seconds(),
		"violations":  reported,
	}
	if *only == "" {
		os.MkdirAll(filepath.Join(verifDir, "evidence"), 0o755)
		b, _ := json.MarshalIndent(ev, "", " ")
		os.WriteFile(filepath.Join(verifDir, "evidence", id+".json"), b, 0o644)
	}
	fmt.Printf("property=%s tier=%s harness-passes=%d paths=%d obligations=%d discharged=%d witnesses-replayed=%d violations=%d inconclusive=%d wall=%.1fs exit=%d\n",
		id, *tier, len(sums), states, totalObl, totalDischarged, validated, reported, len(inconclusive), time.Since(t0).Seconds(), exit)
	return exit
}

func hasEngineChoice(w *witness) bool {
	if w == nil {
		return false
	}
	for _, n := range w.Nondet {
		switch n.Kind {
		case "sched", "perm", "stale":
			return true
		}
	}
	return false
}

func contains(xs []string, x string) bool {
	for _, y := range xs {
		if y == x {
			return true
		}
	}
	return false
}

func sanitize(s string) string {
	return strings.Map(func(r rune) rune {
		if (r >= 'a' && r <= 'z') || (r >= 'A' && r <= 'Z') || (r >= '0' && r <= '9') || r == '-' {
			return r
		}
		return '_'
	}, s)
}

// cmdReplay re-runs a stored counterexample natively (when it has a witness) and prints the outcome.
func cmdReplay(args []string) int {
	if len(args) < 1 {
		fmt.Println("usage: gosx replay <path>")
		return 2
	}
	b, err := os.ReadFile(args[0])
	if err != nil {
		fmt.Println(err)
		return 2
	}
	var rec struct {
		Property, Harness, Kind, Label, What string
		Tier                                 int
		Witness                              *witness
	}
	if err := json.Unmarshal(b, &rec); err != nil {
		fmt.Println(err)
		return 2
	}
	fmt.Printf("property=%s harness=%s %s [%s]: %s\n", rec.Property, rec.Harness, rec.Kind, rec.Label, rec.What)
	if rec.Witness == nil {
		fmt.Println("no model stored (monitor event): re-run the check to re-derive it")
		return 0
	}
	l, err := loadRepo()
	if err != nil {
		fmt.Println("INCONCLUSIVE", err)
		return 3
	}
	_, pkg := l.harness(rec.Harness)
	d := "."
	if pkg == l.post {
		d = "./post"
	}
	scratch, _ := os.MkdirTemp("", "gosx-replay-")
	defer os.RemoveAll(scratch)
	res, out, err := runNative(l, d, []nativeCase{{Harness: rec.Harness, Idx: 0, Tier: rec.Tier, Prop: rec.Property, Nondet: rec.Witness.Nondet}}, scratch)
	if err != nil {
		fmt.Println("native run failed:", err)
		fmt.Println(out)
		return 3
	}
	r := res[0]
	fmt.Printf("native: outcome=%s failed=%v observed=%v\n", r.Outcome, r.Failed, r.Observed)
	if contains(r.Failed, rec.Label) || strings.HasPrefix(r.Outcome, "panic:") {
		fmt.Println("REPRODUCED")
		return 1
	}
	fmt.Println("not reproduced natively")
	return 0
}

func cmdSelftest(args []string) int {
	l, err := loadRepo()
	if err != nil {
		fmt.Println("selftest: load failed:", err)
		return 3
	}
	fmt.Printf("selftest: loaded /repo with harness overlay in %.1fs; solvers: ", l.loadSecs)
	s := newSolver()
	defer s.close()
	x := mkVar(SBV, 8, "x")
	q := []*Term{mk(OBvUlt, 0, cBV(3, 8), x), mk(OBvUlt, 0, x, cBV(5, 8))}
	ok := true
	for _, k := range []string{"z3", "cvc5", "z3-new"} {
		body, vars := smtQuery(q)
		r, m := s.runOn(k, body, vars, 5000, true)
		fmt.Printf("%s=%s(x=%d) ", k, r, m["x"])
		if r != "sat" || m["x"] != 4 {
			ok = false
		}
	}
	fmt.Println()
	if !ok {
		return 3
	}
	return 0
}
