package main

func init() {
	props = append(props, []propSpec{
		{ID: "C04",
			Harnesses: []harnessSpec{
				{Name: "HarnessC04Recycle", Bounds: "inductive step: every sync.Pool.Get returns a stale object (scalar fields unconstrained solver variables, reference fields poisoned); mixed family of 7 keyword groups (numbers, strings+pattern+format, objects, arrays, anyOf/oneOf, allOf/not, nested) x AgainstSchema | recycling SchemaValidator; compared with a fresh non-recycling validation"},
				{Name: "HarnessC04History", HistoryDependent: true, Bounds: "history mode: LIFO pools, one arbitrary operation of the mixed family followed by a probe operation (3 shapes borrowing from several pools); second outcome compared with fresh"},
				{Name: "HarnessC04ParamHeader", Bounds: "parameter / header validators with WithRecycleValidators(true) in havoc pools vs fresh, incl. first-error exits and nil data"},
			},
			Assumptions: []string{"pool invariant Inv assumed for the pre-state and re-checked: no object twice in a pool (double-put monitor), no pooled object used (use-after-put monitor) or reachable from the returned values (escape check)", "sync.Pool contract: Get returns New() or any object previously Put"},
			Outside:     []string{"whole-specification validation through loader/analyser (rule functions only, see C10)", "GC-driven emptying of pools (subsumed: Get may return New())"},
		},
		{ID: "C08",
			Harnesses: []harnessSpec{
				{Name: "HarnessC08Stateless", Bounds: "validator built once without recycling from the mixed family; Validate(v1), Validate(v2 from 5 shapes), Validate(v1) again; each compared with a fresh validator; frame monitor on the validator object during the first call"},
				{Name: "HarnessC08MapOrder", Bounds: "object schema with 2 properties, 1 pattern property, required, additionalProperties:false x instance with 2 (quick) / 3 (thorough) members; all iteration orders of every map with <= 4 entries are solver-chosen permutations"},
				{Name: "HarnessC08ParamHeader", Bounds: "parameter and header validators built once, used on two values and again on the first"},
			},
			Outside: []string{"sequences longer than 3 calls (the frame monitor shows no store to the validator, which covers any length)"},
		},
		{ID: "C11",
			Harnesses: []harnessSpec{
				{Name: "HarnessC11Panic", HistoryDependent: true, Bounds: "the format checker panics at its k-th call, k in 1..3 (quick) / 1..4 (thorough), during AgainstSchema on the mixed family; caller recovers; pool monitors + a later allOf-of-two-formats validation compared with fresh"},
			},
			Assumptions: []string{"history-mode pools (LIFO)"},
			Outside:     []string{"the documented invalid-schema panic (the expander is a stub)", "panics raised inside other caller-supplied code"},
		},
		{ID: "C12",
			Harnesses: []harnessSpec{
				{Name: "HarnessC12ReadOnly", Bounds: "frame monitor: every cell reachable from the instance and from the (reference-free) schema is frozen during AgainstSchema, a validator object and a SwaggerSchema validator object; mixed family"},
			},
			Outside: []string{"specification part: bytes of the loaded document / parsed specification (loader, analyser, expander internals)", "schemas containing $ref (expanded in place by design)"},
		},
		{ID: "C14",
			Harnesses: []harnessSpec{
				{Name: "HarnessC14Lengths", Bounds: "abstract string: rune count r <= 4096 and byte length l with r <= l <= 4r independent solver variables; limit any int64"},
				{Name: "HarnessC14Items", Bounds: "any int64 size and limit"},
				{Name: "HarnessC14Pattern", Bounds: "7 patterns (3 invalid) x 6 subjects, Go regexp run natively"},
				{Name: "HarnessC14Required", Bounds: "16 value shapes: symbolic ints/floats/bools, strings, nil, typed nil pointer, pointer, nil/empty/non-empty slice and map"},
				{Name: "HarnessC14ReadOnly", Bounds: "same 16 shapes x 4 contexts (none, request, response, foreign value under the key)"},
				{Name: "HarnessC14FormatOf", Bounds: "3 names x 2 strings, registry answers symbolic"},
				{Name: "HarnessC14Enum", Bounds: "typed numbers (int64, float64, int32, uint8, float32) of picked values, fractional floats, strings, nested slices"},
				{Name: "HarnessC14EnumFold", Bounds: "6 strings incl. non-ASCII case pairs"},
				{Name: "HarnessC14Unique", Bounds: "slices of 0-3 picked numbers"},
			},
			Assumptions: []string{"context.Context modelled as a chain of (key, value) nodes", "unicode/utf8.RuneCountInString on an abstract string is its rune-count variable"},
			Outside:     []string{"real UTF-8 decoding (trusted unicode/utf8)", "real regexp and format semantics"},
		},
		{ID: "C16",
			Harnesses: []harnessSpec{
				{Name: "HarnessC16Param", Bounds: "type in 5; one constraint group per definition (max/min with exclusive, multipleOf, enum; min/maxLength, pattern, enum; min/maxItems, uniqueItems); items nested to depth 1 (quick) / 2 (thorough); typed values: int64/int32/uint8/float64/float32 picks, strings incl. non-ASCII, bools, []string, []int64, [][]string of length 0-2, mismatching kinds, nil"},
				{Name: "HarnessC16Header", Bounds: "same for headers (non-empty strings)"},
				{Name: "HarnessC16ItemsFormat", Bounds: "format on the parameter vs on its items (4 combinations), registry symbolic"},
			},
			Assumptions: []string{"don't-care cells: integral float offered to an integer definition; empty string offered to a header"},
			Outside:     []string{"collectionFormat splitting", "strfmt-typed Go values", "file parameters"},
		},
		{ID: "C17",
			Harnesses: []harnessSpec{
				{Name: "HarnessC17Composite", Bounds: "mixed family: nil <=> valid, CompositeError code 422, message set equality, no duplicates"},
				{Name: "HarnessC17Location", Bounds: "single-fault instances through properties, patternProperties, additionalProperties, tuple items, missing required member, property holding a tuple; root in {\"\", r, a.b}"},
			},
			Assumptions: []string{"don't-care cell: with an empty root path the library names members reached through patternProperties/additionalProperties/items/required \".x\"; both \"x\" and \".x\" are accepted"},
			Outside:     []string{"wording of messages", "anyOf/oneOf branch selection quality"},
		},
		{ID: "C20",
			Harnesses: []harnessSpec{
				{Name: "HarnessC20Algebra", Bounds: "programs of 3 (quick) / 4 (thorough) operations, 15 operation instances x 2 targets per step (AddErrors/AddWarnings with m1, m2, nil, duplicates; Merge / MergeAsErrors / MergeAsWarnings with the other target, a third result, nil; Inc), plain and pooled results; compared with an ordered-set model after every step; operands mutated afterwards", MaxPaths: 3000000},
			},
			Outside: []string{"schemata containers (covered through C18/C19)"},
		},
	}...)
}
