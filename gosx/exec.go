package main

import (
	"fmt"
	"go/constant"
	"go/token"
	"go/types"
	"os"
	"sort"
	"strings"
	"sync"

	"golang.org/x/tools/go/ssa"
)

type deferred struct {
	fn   Value
	args []Value
	tail *deferred
}

type frame struct {
	e         *Exec
	caller    *frame
	fn        *ssa.Function
	idx       map[ssa.Value]int32 // per-function numbering of SSA values (shared, read-only)
	vals      []Value
	block     *ssa.BasicBlock
	prev      *ssa.BasicBlock
	defers    *deferred
	result    Value
	panicking bool
	panicVal  interface{}
	skipPhis  bool
}

type nondetRec struct {
	Kind string // int64|uint64|float64|bool|choose|pick|byte|len|perm|sched|stale
	T    *Term
}

type obsRec struct {
	Name string
	V    Value
}

// Exec is one worker's interpreter state; everything below "per path" is reset for each path.
type Exec struct {
	prog *ssa.Program
	pkg  *ssa.Package
	sol  *Solver
	run  *harnessRun
	// per path
	globals    map[*ssa.Global]*Value
	decisions  []int32
	pos        int
	pc         []*Term
	hint       Model
	hintValid  bool
	blind      bool
	ev         *evaluator
	nvars      int
	nondet     []nondetRec
	observed   []obsRec
	steps      int64
	atomIDs    []int64
	astrSeq    int
	astrVars   map[string]*Term
	newWork    []workItem
	events     []pathEvent
	reachedEnd bool
	kfExcluded bool

	// models of the environment
	ts           *threadState
	analyzers    map[*Value]*analysisModel
	lastAnalyzer *Value
	lastSwagger  *Value
	syncMaps     map[*Value]*Map
	swAnalyzer   map[*Value]*Value
	poolItems    map[*Value][]Value
	inPool       map[*Value]string
	poolOrder    []*Value
	frozen       map[*Value]string
	frozenMaps   map[*Map]string
	permMaps     bool
	havoc        bool
	staleObjs    int
	mon          [5]int64 // monitor checks on this path: frame stores, pool puts, pool gets, pooled-object accesses, race-checked accesses
	mapSeq       int

	merge *mergeCtx
	depth int
	in    *interner

	globalCells map[*Value]string   // cells of package-level variables (incl. interior cells) -> name
	globalInner map[*Value][]*Value // root cell -> interior cells
}

type pathEvent struct {
	Kind  string // violation | panic | stale-read | double-put | use-after-put | escape | frame | race | inconclusive | abort
	Label string
	What  string
	Model Model
}

func (e *Exec) global(g *ssa.Global) *Value {
	cell, ok := e.globals[g]
	if !ok {
		z := zero(g.Type().(*types.Pointer).Elem())
		cell = &z
		e.globals[g] = cell
		if e.globalCells == nil {
			e.globalCells = map[*Value]string{}
			e.globalInner = map[*Value][]*Value{}
		}
		name := g.Pkg.Pkg.Name() + "." + g.Name()
		if !strings.HasPrefix(g.Pkg.Pkg.Path(), "github.com/go-openapi/validate") {
			return cell // only the package-level state of the code under test is monitored
		}
		e.globalCells[cell] = name
		w := newWalker()
		w.seenP[cell] = true
		w.cell = func(c *Value) {
			e.globalCells[c] = name
			e.globalInner[cell] = append(e.globalInner[cell], c)
		}
		w.walkInner(z)
	}
	return cell
}

func (fr *frame) get(v ssa.Value) Value {
	switch v := v.(type) {
	case *ssa.Const:
		return constVal(v)
	case *ssa.Global:
		return fr.e.global(v)
	case *ssa.Function:
		return v
	case *ssa.Builtin:
		return v
	}
	i, ok := fr.idx[v]
	if !ok {
		panic(abort("unnumbered value " + v.Name() + " in " + fr.fn.String()))
	}
	return fr.vals[i]
}

func (fr *frame) set(v ssa.Value, x Value) {
	fr.vals[fr.idx[v]] = x
}

func constVal(c *ssa.Const) Value {
	t := c.Type()
	if c.Value == nil {
		return zero(t)
	}
	b := basicOf(t)
	if b == nil {
		panic(abort("const of type " + t.String()))
	}
	switch {
	case isBoolB(b):
		return cBool(constant.BoolVal(c.Value))
	case isIntB(b):
		w, signed := intWidth(b)
		if signed {
			v, _ := constant.Int64Val(constant.ToInt(c.Value))
			return cBV(uint64(v), w)
		}
		v, _ := constant.Uint64Val(constant.ToInt(c.Value))
		return cBV(v, w)
	case isFloatB(b):
		f, _ := constant.Float64Val(c.Value)
		return cFP(f, fpW(b))
	case isStrB(b):
		if c.Value.Kind() == constant.String {
			return constant.StringVal(c.Value)
		}
		v, _ := constant.Int64Val(c.Value)
		return string(rune(v))
	}
	panic(abort("const " + c.String()))
}

// ---------- symbolic variables, path condition, branching ----------

func (e *Exec) fresh(s Sort, w int, hint, kind string) *Term {
	e.nvars++
	name := fmt.Sprintf("%s_%d", hint, e.nvars)
	var t *Term
	if s == SFP {
		bits := mkVar(SBV, w, name)
		t = &Term{Op: OFpOfBits, S: SFP, W: w, A: []*Term{bits}}
	} else {
		t = mkVar(s, w, name)
	}
	if kind != "" {
		e.nondet = append(e.nondet, nondetRec{kind, t})
	}
	return t
}

func (e *Exec) setHint(m Model) {
	e.hint = m
	e.hintValid = m != nil
	e.ev = newEval(m)
}

// assume adds c to the path condition.
func (e *Exec) assume(c *Term) {
	if c.conc() {
		if !c.b() {
			panic(pathEnd{"assume false"})
		}
		return
	}
	if e.merge != nil {
		panic(mergeAbort{"assumption inside pure region"})
	}
	c = e.in.intern(c)
	if v, ok := e.in.known(c); ok {
		if !v {
			panic(pathEnd{"assume contradicts the path condition"})
		}
		return
	}
	e.in.record(c, true)
	e.pc = append(e.pc, c)
	if e.pos < len(e.decisions) {
		return // replaying a prefix whose model satisfies it
	}
	if e.hintValid && e.ev.eval(c) == 0 {
		e.hintValid = false
	}
}

// addPC appends a branch literal to the path condition.
func (e *Exec) addPC(c *Term, take bool) {
	e.in.record(c, take)
	if take {
		e.pc = append(e.pc, c)
	} else {
		e.pc = append(e.pc, notT(c))
	}
}

// ensureHint makes sure the path condition is known satisfiable and a model of it is at hand.
func (e *Exec) ensureHint() {
	if e.hintValid || e.blind {
		return
	}
	r, m := e.sol.Check(e.pc, e.run.cfg.feasMs*4, true)
	switch r {
	case "sat":
		e.setHint(m)
	case "unsat":
		panic(pathEnd{"infeasible"})
	default:
		e.blind = true
		e.run.noteUnknownFeas()
	}
}

func (e *Exec) pushWork(dec []int32, m Model) {
	e.newWork = append(e.newWork, workItem{dec: dec, model: m})
}

func (e *Exec) withDecision(d int32) []int32 {
	out := make([]int32, len(e.decisions)+1)
	copy(out, e.decisions)
	out[len(e.decisions)] = d
	return out
}

func (e *Exec) branch(c *Term) bool {
	if c.conc() {
		return c.b()
	}
	if e.merge != nil {
		return e.mergeBranch(c)
	}
	c = e.in.intern(c)
	if v, ok := e.in.known(c); ok {
		return v // decided by the path condition: no decision, no query
	}
	if e.pos < len(e.decisions) {
		take := e.decisions[e.pos] != 0
		e.pos++
		e.addPC(c, take)
		return take
	}
	e.ensureHint()
	var take bool
	if e.blind {
		rt, mt := e.sol.Check(append(append([]*Term{}, e.pc...), c), e.run.cfg.feasMs, true)
		rf, mf := e.sol.Check(append(append([]*Term{}, e.pc...), notT(c)), e.run.cfg.feasMs, true)
		ft, ff := rt != "unsat", rf != "unsat"
		switch {
		case ft && ff:
			e.pushWork(e.withDecision(0), mf)
			take = true
			if mt != nil {
				e.setHint(mt)
				e.blind = false
			}
		case ft:
			take = true
		case ff:
			take = false
			if mf != nil {
				e.setHint(mf)
				e.blind = false
			}
		default:
			panic(pathEnd{"infeasible"})
		}
	} else {
		take = e.ev.eval(c) != 0
		flipped := c
		if take {
			flipped = notT(c)
		}
		r, m := e.sol.Check(append(append([]*Term{}, e.pc...), flipped), e.run.cfg.feasMs, true)
		switch r {
		case "sat":
			e.pushWork(e.withDecision(b2i(!take)), m)
		case "unsat":
		default:
			e.run.noteUnknownFeas()
			e.pushWork(e.withDecision(b2i(!take)), nil)
		}
	}
	e.decisions = append(e.decisions, b2i(take))
	e.pos++
	e.addPC(c, take)
	return take
}

func b2i(b bool) int32 {
	if b {
		return 1
	}
	return 0
}

// choose forks n ways without consulting the solver (a free structural choice); the chosen value
// is also bound to a solver variable so that it appears in models and replays.
func (e *Exec) choose(n int, hint, kind string) int {
	if n <= 0 {
		panic(pathEnd{"choose from empty range"})
	}
	v := e.fresh(SBV, 32, hint, kind)
	var k int
	if e.merge != nil {
		panic(mergeAbort{"choice inside pure region"})
	}
	if e.pos < len(e.decisions) {
		k = int(e.decisions[e.pos])
		e.pos++
	} else {
		for alt := n - 1; alt >= 1; alt-- {
			var m Model
			if e.hintValid {
				m = Model{}
				for kk, vv := range e.hint {
					m[kk] = vv
				}
				m[v.Name] = uint64(alt)
			}
			e.pushWork(e.withDecision(int32(alt)), m)
		}
		k = 0
		e.decisions = append(e.decisions, 0)
		e.pos++
		if e.hintValid {
			e.hint[v.Name] = 0
		}
	}
	e.pc = append(e.pc, eqT(v, cBV(uint64(k), 32)))
	return k
}

// concretize forks over the feasible values 0..max-1 of a small symbolic integer.
func (e *Exec) concretize(t *Term, max int) uint64 {
	if t.conc() {
		return t.u()
	}
	if t.FD != nil {
		for _, v := range fdValues(t) {
			if e.branch(eqT(t, cBV(v, t.W))) {
				return v
			}
		}
		panic(pathEnd{"fd exhausted"})
	}
	for i := 0; i < max; i++ {
		if e.branch(eqT(t, cBV(uint64(i), t.W))) {
			return uint64(i)
		}
	}
	panic(abort("concretize: symbolic integer out of the supported range (unwinding bound)"))
}

func (e *Exec) event(kind, label, what string) {
	if e.merge != nil {
		panic(mergeAbort{"event inside pure region"})
	}
	e.ensureHint()
	var m Model
	if e.hintValid {
		m = e.hint
	}
	e.events = append(e.events, pathEvent{Kind: kind, Label: label, What: what, Model: m})
}

// ---------- calls ----------

func (e *Exec) call(caller *frame, fnv Value, args []Value, pos token.Pos) Value {
	switch fn := fnv.(type) {
	case *ssa.Function:
		if fn == nil {
			panic(goPanic{"runtime error: invalid memory address or nil pointer dereference (nil func)"})
		}
		return e.callSSA(caller, fn, args, nil)
	case *Closure:
		if fn == nil {
			panic(goPanic{"runtime error: invalid memory address or nil pointer dereference (nil func)"})
		}
		return e.callSSA(caller, fn.Fn, args, fn.Env)
	case *ssa.Builtin:
		return e.callBuiltin(caller, fn, args)
	case *rtypeMethod:
		return e.callRtypeMethod(fn, args)
	case *ctxMethod:
		return e.callCtxMethod(fn, args)
	case Stale:
		panic(staleRead{fn.Where})
	}
	panic(abort(fmt.Sprintf("call of %T", fnv)))
}

func (e *Exec) callSSA(caller *frame, fn *ssa.Function, args []Value, env []Value) Value {
	if e.run.cfg.mergeOn && e.merge == nil && env == nil && fn.Blocks != nil && hasSym(args) && fn.Signature.Results().Len() == 1 {
		if b := basicOf(fn.Signature.Results().At(0).Type()); b != nil && !isStrB(b) && e.run.isPure(fn) {
			if v, ok := e.summarize(caller, fn, args); ok {
				return v
			}
		}
	}
	return e.callSSAraw(caller, fn, args, env)
}

type fnInfo struct {
	name string
	ext  extFn
	once sync.Once
	idx  map[ssa.Value]int32
}

// numbering assigns a slot to every parameter, free variable and value-producing instruction of fn.
func (fi *fnInfo) numbering(fn *ssa.Function) map[ssa.Value]int32 {
	fi.once.Do(func() {
		idx := map[ssa.Value]int32{}
		add := func(v ssa.Value) {
			if _, ok := idx[v]; !ok {
				idx[v] = int32(len(idx))
			}
		}
		for _, p := range fn.Params {
			add(p)
		}
		for _, fv := range fn.FreeVars {
			add(fv)
		}
		for _, l := range fn.Locals {
			add(l)
		}
		for _, b := range fn.Blocks {
			for _, ins := range b.Instrs {
				if v, ok := ins.(ssa.Value); ok {
					add(v)
				}
			}
		}
		if fn.Recover != nil {
			for _, ins := range fn.Recover.Instrs {
				if v, ok := ins.(ssa.Value); ok {
					add(v)
				}
			}
		}
		fi.idx = idx
	})
	return fi.idx
}

var fnInfoCache sync.Map // *ssa.Function -> *fnInfo

func infoOf(fn *ssa.Function) *fnInfo {
	if v, ok := fnInfoCache.Load(fn); ok {
		return v.(*fnInfo)
	}
	fi := &fnInfo{name: fn.String()}
	fi.ext = externals[fi.name]
	fnInfoCache.Store(fn, fi)
	return fi
}

func (e *Exec) callSSAraw(caller *frame, fn *ssa.Function, args []Value, env []Value) Value {
	fi := infoOf(fn)
	name := fi.name
	if fn.Parent() == nil {
		if strings.HasPrefix(fn.Name(), "verif") && fn.Blocks == nil {
			return e.verifIntrinsic(caller, fn.Name(), args)
		}
		if fi.ext != nil {
			e.run.noteExtern(name)
			return fi.ext(e, caller, args)
		}
		if fn.Name() == "init" && fn.Pkg != nil && fn.Signature.Recv() == nil && !e.run.isInitPkg(fn.Pkg) {
			return nil // dependency package initialisers are not run
		}
		if fn.Blocks == nil {
			panic(abort("no body / unsupported extern: " + name))
		}
	}
	if fn.Pkg != nil && fn.Pkg.Pkg.Path() != e.pkg.Pkg.Path() && !allowedDep(fn) {
		panic(abort("unsupported callee (dependency not whitelisted): " + name))
	}
	if fn.Pkg == nil && fn.Blocks == nil {
		panic(abort("no body: " + name))
	}
	e.run.noteFunc(fn)
	e.depth++
	if e.depth > 400 {
		panic(abort("call depth > 400 (unwinding bound)"))
	}
	defer func() { e.depth-- }()
	fr := &frame{e: e, caller: caller, fn: fn, idx: fi.numbering(fn)}
	fr.vals = make([]Value, len(fr.idx))
	fr.block = fn.Blocks[0]
	for _, l := range fn.Locals {
		z := zero(l.Type().(*types.Pointer).Elem())
		p := &z
		fr.set(l, p)
		if e.merge != nil {
			e.merge.registerCells(p)
		}
	}
	for i, p := range fn.Params {
		fr.set(p, args[i])
	}
	for i, fv := range fn.FreeVars {
		fr.set(fv, env[i])
	}
	for fr.block != nil {
		fr.runFrame()
	}
	return fr.result
}

func allowedDep(fn *ssa.Function) bool {
	p := fn.Pkg.Pkg.Path()
	switch p {
	case "github.com/go-openapi/loads", "github.com/go-openapi/errors", "github.com/go-openapi/spec", "github.com/go-openapi/jsonreference",
		"github.com/go-openapi/jsonpointer", "github.com/go-openapi/swag", "github.com/go-openapi/validate/post", "github.com/go-openapi/validate",
		"unicode/utf8", "unicode", "sort", "errors", "slices", "github.com/go-openapi/analysis", "encoding/json", "path", "net/url", "net/http":
		return true
	}
	return false
}

func (fr *frame) runFrame() {
	defer func() {
		if fr.block == nil {
			return // normal return
		}
		r := recover()
		switch r.(type) {
		case goPanic:
		default:
			panic(r) // engine-level aborts propagate
		}
		fr.panicking = true
		fr.panicVal = r
		fr.runDefers()
		fr.block = fr.fn.Recover
		if fr.block == nil {
			fr.result = zero(fr.fn.Signature.Results())
			if fr.fn.Signature.Results().Len() == 0 {
				fr.result = nil
			}
		}
	}()
	for {
		if fr.skipPhis {
			fr.skipPhis = false
		} else {
			fr.executePhis()
		}
		for _, instr := range fr.block.Instrs {
			if _, ok := instr.(*ssa.Phi); ok {
				continue
			}
			fr.e.steps++
			if fr.e.steps > fr.e.run.cfg.maxSteps {
				panic(abort("step budget exceeded (unwinding bound)"))
			}
			if fr.e.run.cfg.trace {
				if v, ok := instr.(ssa.Value); ok {
					fmt.Fprintf(os.Stderr, "  %s: %s = %s\n", fr.fn.Name(), v.Name(), instr)
				} else {
					fmt.Fprintf(os.Stderr, "  %s: %s\n", fr.fn.Name(), instr)
				}
			}
			switch fr.visit(instr) {
			case kReturn:
				return
			case kJump:
				goto nextBlock
			}
		}
	nextBlock:
	}
}

func (fr *frame) executePhis() {
	var temps []Value
	var phis []*ssa.Phi
	idx := -1
	for i, p := range fr.block.Preds {
		if p == fr.prev {
			idx = i
			break
		}
	}
	for _, instr := range fr.block.Instrs {
		phi, ok := instr.(*ssa.Phi)
		if !ok {
			break
		}
		phis = append(phis, phi)
		temps = append(temps, fr.get(phi.Edges[idx]))
	}
	for i, phi := range phis {
		fr.set(phi, temps[i])
	}
}

func (fr *frame) runDefer(d *deferred) {
	ok := false
	defer func() {
		if !ok {
			r := recover()
			if _, isGo := r.(goPanic); !isGo {
				panic(r)
			}
			fr.panicking = true
			fr.panicVal = r
		}
	}()
	fr.e.call(fr, d.fn, d.args, token.NoPos)
	ok = true
}

func (fr *frame) runDefers() {
	for d := fr.defers; d != nil; d = d.tail {
		fr.defers = d.tail
		fr.runDefer(d)
	}
	fr.defers = nil
	if fr.panicking {
		panic(fr.panicVal)
	}
}

func doRecover(caller *frame) Value {
	if caller != nil && !caller.panicking && caller.caller != nil && caller.caller.panicking {
		caller.caller.panicking = false
		p := caller.caller.panicVal.(goPanic)
		caller.caller.panicVal = nil
		switch v := p.v.(type) {
		case Iface:
			return v
		case string:
			return Iface{T: types.Typ[types.String], V: v} // runtime error modelled as string
		}
		return Iface{T: types.Typ[types.String], V: fmt.Sprint(p.v)}
	}
	return Iface{}
}

type continuation int

const (
	kNext continuation = iota
	kReturn
	kJump
)

func (fr *frame) jump(i int) continuation {
	fr.prev, fr.block = fr.block, fr.block.Succs[i]
	return kJump
}

func nilDeref() goPanic {
	return goPanic{"runtime error: invalid memory address or nil pointer dereference"}
}

func (fr *frame) ptr(v ssa.Value) *Value {
	switch p := fr.get(v).(type) {
	case *Value:
		return p
	case Stale:
		panic(staleRead{p.Where})
	default:
		panic(abort(fmt.Sprintf("pointer expected, got %T in %s", p, fr.fn)))
	}
}

func (fr *frame) term(v ssa.Value) *Term {
	switch p := fr.get(v).(type) {
	case *Term:
		return p
	case Stale:
		panic(staleRead{p.Where})
	default:
		panic(abort(fmt.Sprintf("scalar expected, got %T in %s (%s)", p, fr.fn, v.Name())))
	}
}

func (fr *frame) visit(instr ssa.Instruction) continuation {
	e := fr.e
	switch ins := instr.(type) {
	case *ssa.DebugRef:
	case *ssa.UnOp:
		fr.set(ins, e.unop(ins, fr.get(ins.X)))
	case *ssa.BinOp:
		fr.set(ins, e.binop(ins.Op, ins.X.Type(), fr.get(ins.X), fr.get(ins.Y)))
	case *ssa.Call:
		fn, args := fr.prepareCall(&ins.Call)
		fr.set(ins, e.call(fr, fn, args, ins.Pos()))
	case *ssa.ChangeInterface:
		fr.set(ins, fr.get(ins.X))
	case *ssa.ChangeType:
		fr.set(ins, fr.get(ins.X))
	case *ssa.Convert:
		fr.set(ins, e.conv(ins.Type(), ins.X.Type(), fr.get(ins.X)))
	case *ssa.MakeInterface:
		fr.set(ins, Iface{T: ins.X.Type(), V: copyVal(fr.get(ins.X))})
	case *ssa.Extract:
		fr.set(ins, fr.get(ins.Tuple).(Tuple)[ins.Index])
	case *ssa.Slice:
		fr.set(ins, e.slice(fr.get(ins.X), ins, fr))
	case *ssa.Return:
		switch len(ins.Results) {
		case 0:
		case 1:
			fr.result = fr.get(ins.Results[0])
		default:
			var res Tuple
			for _, r := range ins.Results {
				res = append(res, fr.get(r))
			}
			fr.result = res
		}
		fr.block = nil
		return kReturn
	case *ssa.RunDefers:
		fr.runDefers()
	case *ssa.Panic:
		panic(goPanic{fr.get(ins.X)})
	case *ssa.Store:
		addr := fr.ptr(ins.Addr)
		if addr == nil {
			panic(nilDeref())
		}
		if e.merge != nil && !e.merge.cells[addr] {
			panic(mergeAbort{"store inside pure region"})
		}
		if e.ts != nil {
			e.memAccess(addr, true, fr.fn.Name())
		}
		e.store(addr, fr.get(ins.Val))
	case *ssa.If:
		cond := fr.term(ins.Cond)
		if !cond.conc() && e.merge == nil && e.run.cfg.mergeOn {
			if _, decided := e.in.known(e.in.intern(cond)); !decided {
				if j := e.run.ipdom(fr.block); j != nil {
					// whether the region was merged is part of the path's decision record (2 = merged,
					// 3 = not merged): the list of regions known not to merge is shared between paths
					// and must not make the re-execution of a decision prefix diverge
					if e.pos < len(e.decisions) {
						d := e.decisions[e.pos]
						e.pos++
						if d == 2 {
							if !fr.mergeRegion(cond, j) {
								panic(abort("replay divergence: a region merged on the parent path does not merge on re-execution"))
							}
							return kJump
						}
						if d != 3 {
							panic(abort("replay divergence: merge marker expected"))
						}
					} else if !e.run.mergeBanned(ins) && fr.mergeRegion(cond, j) {
						e.decisions = append(e.decisions, 2)
						e.pos++
						return kJump
					} else {
						e.run.mergeFailed(ins)
						e.decisions = append(e.decisions, 3)
						e.pos++
					}
				}
			}
		}
		if e.branch(cond) {
			return fr.jump(0)
		}
		return fr.jump(1)
	case *ssa.Jump:
		return fr.jump(0)
	case *ssa.Defer:
		if e.merge != nil {
			panic(mergeAbort{"defer inside pure region"})
		}
		fn, args := fr.prepareCall(&ins.Call)
		fr.defers = &deferred{fn: fn, args: args, tail: fr.defers}
	case *ssa.Go:
		if e.merge != nil {
			panic(mergeAbort{"go inside pure region"})
		}
		fn, args := fr.prepareCall(&ins.Call)
		e.spawn(fr, fn, args)
	case *ssa.MakeChan, *ssa.Send, *ssa.Select:
		panic(abort("channels"))
	case *ssa.Alloc:
		z := zero(ins.Type().(*types.Pointer).Elem())
		if ins.Heap {
			p := &z
			fr.set(ins, p)
			if e.merge != nil {
				e.merge.registerCells(p)
			}
		} else {
			addr := fr.vals[fr.idx[ins]].(*Value)
			if e.merge != nil && !e.merge.cells[addr] {
				panic(mergeAbort{"local re-initialised inside pure region"})
			}
			*addr = z
			if e.merge != nil {
				e.merge.registerCells(addr)
			}
		}
	case *ssa.MakeSlice:
		n := e.concretize(fr.term(ins.Len), 64)
		c := e.concretize(fr.term(ins.Cap), 64)
		s := make([]Value, n, c)
		et := ins.Type().Underlying().(*types.Slice).Elem()
		full := s[:c]
		for i := range full {
			full[i] = zero(et)
		}
		fr.set(ins, s)
	case *ssa.MakeMap:
		mt := ins.Type().Underlying().(*types.Map)
		e.mapSeq++
		fr.set(ins, &Map{KT: mt.Key(), VT: mt.Elem(), id: e.mapSeq})
	case *ssa.Range:
		fr.set(ins, e.rangeIter(fr.get(ins.X), ins.X.Type()))
	case *ssa.Next:
		fr.set(ins, fr.get(ins.Iter).(iter).next(e))
	case *ssa.FieldAddr:
		p := fr.ptr(ins.X)
		if p == nil {
			panic(nilDeref())
		}
		if len(e.inPool) > 0 {
			e.mon[3]++
			if w, ok := e.inPool[p]; ok {
				fname := ins.X.Type().Underlying().(*types.Pointer).Elem().Underlying().(*types.Struct).Field(ins.Field).Name()
				e.event("use-after-put", "use-after-put", fmt.Sprintf("field %s of %s accessed in %s while the object is in its pool (put at %s)", fname, ins.X.Type(), fr.fn.Name(), w))
			}
		}
		fr.set(ins, &(*p).(Structure)[ins.Field])
	case *ssa.Field:
		fr.set(ins, copyVal(fr.get(ins.X).(Structure)[ins.Field]))
	case *ssa.IndexAddr:
		x := fr.get(ins.X)
		i := int(sx(e.concretize(fr.term(ins.Index), 64), 64))
		switch x := x.(type) {
		case []Value:
			if i < 0 || i >= len(x) {
				panic(goPanic{fmt.Sprintf("runtime error: index out of range [%d] with length %d", i, len(x))})
			}
			fr.set(ins, &x[i])
		case *Value:
			if x == nil {
				panic(nilDeref())
			}
			a := (*x).(Array)
			if i < 0 || i >= len(a) {
				panic(goPanic{fmt.Sprintf("runtime error: index out of range [%d] with length %d", i, len(a))})
			}
			fr.set(ins, &a[i])
		case Stale:
			panic(staleRead{x.Where})
		default:
			panic(abort(fmt.Sprintf("IndexAddr on %T", x)))
		}
	case *ssa.Index:
		x := fr.get(ins.X)
		i := int(sx(e.concretize(fr.term(ins.Index), 64), 64))
		switch x := x.(type) {
		case BStr:
			if i < 0 || i >= len(x) {
				panic(goPanic{fmt.Sprintf("runtime error: index out of range [%d] with length %d", i, len(x))})
			}
			fr.set(ins, x[i])
		case Array:
			fr.set(ins, copyVal(x[i]))
		case string:
			if hasTok(x) {
				panic(abort("indexing a string holding symbolic atoms"))
			}
			if i < 0 || i >= len(x) {
				panic(goPanic{fmt.Sprintf("runtime error: index out of range [%d] with length %d", i, len(x))})
			}
			fr.set(ins, cBV(uint64(x[i]), 8))
		default:
			panic(abort(fmt.Sprintf("Index on %T", x)))
		}
	case *ssa.Lookup:
		fr.set(ins, e.lookup(ins, fr.get(ins.X), fr.get(ins.Index)))
	case *ssa.MapUpdate:
		if e.merge != nil {
			panic(mergeAbort{"map update inside pure region"})
		}
		mv := fr.get(ins.Map)
		if st, ok := mv.(Stale); ok {
			panic(staleRead{st.Where})
		}
		m := mv.(*Map)
		if m == nil {
			panic(goPanic{"assignment to entry in nil map"})
		}
		e.mapAccess(m, true, fr.fn.Name())
		e.noteMapWrite(m, fr.fn.Name())
		k, v := fr.get(ins.Key), copyVal(fr.get(ins.Value))
		e.mapSet(m, k, v)
	case *ssa.TypeAssert:
		x := fr.get(ins.X)
		if st, ok := x.(Stale); ok {
			panic(staleRead{st.Where})
		}
		fr.set(ins, e.typeAssert(ins, x.(Iface)))
	case *ssa.MakeClosure:
		var bindings []Value
		for _, b := range ins.Bindings {
			bindings = append(bindings, fr.get(b))
		}
		fr.set(ins, &Closure{Fn: ins.Fn.(*ssa.Function), Env: bindings})
	case *ssa.Phi:
		panic("phi")
	default:
		panic(abort(fmt.Sprintf("unsupported instruction %T in %s", instr, fr.fn)))
	}
	return kNext
}

// checkHashable: a key of interface type whose dynamic type is not comparable (map, slice, func)
// cannot be hashed: the runtime panics
func checkHashable(k Value) {
	if ik, ok := k.(Iface); ok && ik.T != nil && !types.Comparable(ik.T) {
		panic(goPanic{"runtime error: hash of unhashable type " + ik.T.String()})
	}
}

func (e *Exec) mapSet(m *Map, k, v Value) {
	checkHashable(k)
	if isSymKey(k) || m.hasSymKeys() {
		if m.hasConds() {
			panic(abort("update of a map with symbolic keys and conditional entries"))
		}
		m.Keys = append(m.Keys, k) // set semantics: duplicates are harmless for membership
		m.Vals = append(m.Vals, v)
		if m.Conds != nil {
			m.Conds = append(m.Conds, nil)
		}
		return
	}
	if i := m.find(k); i >= 0 {
		if c := m.cond(i); !c.conc() {
			// writing a conditionally present key makes it unconditionally present
			m.Conds[i] = nil
		}
		m.Vals[i] = v
		return
	}
	m.Keys = append(m.Keys, k)
	m.Vals = append(m.Vals, v)
	if m.Conds != nil {
		m.Conds = append(m.Conds, nil)
	}
}

func (fr *frame) prepareCall(call *ssa.CallCommon) (Value, []Value) {
	v := fr.get(call.Value)
	var fn Value
	var args []Value
	if call.Method == nil {
		fn = v
	} else {
		if st, ok := v.(Stale); ok {
			panic(staleRead{st.Where})
		}
		recv := v.(Iface)
		if recv.T == nil {
			panic(goPanic{"runtime error: invalid memory address or nil pointer dereference (method call on nil interface)"})
		}
		if rt, ok := recv.V.(*RType); ok {
			fn = &rtypeMethod{rt, call.Method.Name()}
		} else if cn, ok := recv.V.(*ctxNode); ok {
			fn = &ctxMethod{cn, call.Method.Name()}
		} else {
			if fr.e.prog.MethodSets.MethodSet(recv.T).Lookup(call.Method.Pkg(), call.Method.Name()) == nil {
				panic(abort("method not found: " + recv.T.String() + "." + call.Method.Name()))
			}
			f := fr.e.prog.LookupMethod(recv.T, call.Method.Pkg(), call.Method.Name())
			if f == nil {
				panic(abort("method not found: " + recv.T.String() + "." + call.Method.Name()))
			}
			fn = f
			args = append(args, recv.V)
		}
	}
	for _, a := range call.Args {
		args = append(args, fr.get(a))
	}
	return fn, args
}

type rtypeMethod struct {
	rt   *RType
	name string
}

// ---------- operators ----------

func (e *Exec) unop(ins *ssa.UnOp, x Value) Value {
	if st, ok := x.(Stale); ok {
		panic(staleRead{st.Where})
	}
	switch ins.Op {
	case token.MUL:
		p := x.(*Value)
		if e.ts != nil && p != nil {
			e.memAccess(p, false, "load")
		}
		if p != nil && len(e.inPool) > 0 {
			e.mon[3]++
			if w, ok := e.inPool[p]; ok {
				e.event("use-after-put", "use-after-put", fmt.Sprintf("load of %s while the object is in its pool (put at %s)", ins.X.Type(), w))
			}
		}
		return load(p)
	case token.NOT:
		return notT(x.(*Term))
	case token.SUB:
		t := x.(*Term)
		if r, ok := fdApply1(t, func(a *Term) *Term {
			if a.S == SFP {
				return mk(OFpNeg, 0, a)
			}
			return mk(OBvNeg, 0, a)
		}); ok {
			return r
		}
		if t.S == SFP {
			return mk(OFpNeg, 0, t)
		}
		return mk(OBvNeg, 0, t)
	case token.XOR:
		return mk(OBvNot, 0, x.(*Term))
	}
	panic(abort("unop " + ins.Op.String()))
}

func (e *Exec) binop(op token.Token, t types.Type, x, y Value) Value {
	if st, ok := x.(Stale); ok {
		if op == token.EQL || op == token.NEQ {
			r := equalsT(t, x, y)
			if op == token.NEQ {
				return notT(r)
			}
			return r
		}
		panic(staleRead{st.Where})
	}
	if st, ok := y.(Stale); ok {
		panic(staleRead{st.Where})
	}
	if isBStr(x) || isBStr(y) {
		switch op {
		case token.ADD:
			return append(append(BStr{}, toBStr(x)...), toBStr(y)...)
		case token.EQL:
			return equalsT(t, x, y)
		case token.NEQ:
			return notT(equalsT(t, x, y))
		}
		panic(abort("string op " + op.String() + " on byte-vector string"))
	}
	if isAStr(x) || isAStr(y) {
		switch op {
		case token.EQL:
			return equalsT(t, x, y)
		case token.NEQ:
			return notT(equalsT(t, x, y))
		case token.ADD:
			return e.strOf(x) + e.strOf(y)
		}
		panic(abort("string op " + op.String() + " on abstract string"))
	}
	switch xv := x.(type) {
	case *Term:
		yt := y.(*Term)
		if (op == token.QUO || op == token.REM) && xv.S == SBV && !yt.conc() {
			if e.branch(eqT(yt, cBV(0, yt.W))) {
				panic(goPanic{"runtime error: integer divide by zero"})
			}
		}
		return termBinop(op, xv, yt, t)
	case string:
		ys := y.(string)
		switch op {
		case token.ADD:
			return xv + ys
		case token.EQL:
			return strEq(xv, ys)
		case token.NEQ:
			return notT(strEq(xv, ys))
		}
		if hasTok(xv) || hasTok(ys) {
			panic(abort("ordering of strings holding symbolic atoms"))
		}
		switch op {
		case token.LSS:
			return cBool(xv < ys)
		case token.LEQ:
			return cBool(xv <= ys)
		case token.GTR:
			return cBool(xv > ys)
		case token.GEQ:
			return cBool(xv >= ys)
		}
	}
	switch op {
	case token.EQL:
		return equalsT(t, x, y)
	case token.NEQ:
		return notT(equalsT(t, x, y))
	}
	panic(abort(fmt.Sprintf("binop %s on %T", op, x)))
}

// strOf views a string-like value as a Go string (abstract strings become atom tokens).
func (e *Exec) strOf(v Value) string {
	switch s := v.(type) {
	case string:
		return s
	case *AStr:
		tok, id := newAtomTok(atom{A: s}, 's')
		e.atomIDs = append(e.atomIDs, id)
		return tok
	case BStr:
		if c, ok := s.concrete(); ok {
			return c
		}
	case *NumStr:
		return fmt.Sprint(symTok{atom{T: s.T}, e})
	case Stale:
		panic(staleRead{s.Where})
	}
	panic(abort(fmt.Sprintf("strOf %T", v)))
}

func (e *Exec) conv(dst, src types.Type, x Value) Value {
	ud, us := dst.Underlying(), src.Underlying()
	switch xv := x.(type) {
	case *Term:
		if bd := basicOf(dst); bd != nil && isStrB(bd) { // string(rune)
			if !xv.conc() {
				panic(abort("string(symbolic int)"))
			}
			return string(rune(sx(xv.u(), xv.W)))
		}
		if _, ok := ud.(*types.Basic); ok {
			return termConvert(xv, src, dst)
		}
	case string:
		if sl, ok := ud.(*types.Slice); ok {
			if hasTok(xv) {
				panic(abort("[]byte of a string holding symbolic atoms"))
			}
			eb := basicOf(sl.Elem())
			var out []Value
			if eb.Kind() == types.Uint8 {
				for i := 0; i < len(xv); i++ {
					out = append(out, cBV(uint64(xv[i]), 8))
				}
			} else {
				for _, r := range xv {
					out = append(out, cBV(uint64(r), 32))
				}
			}
			if out == nil {
				out = []Value{}
			}
			return out
		}
		return xv
	case *NumStr:
		if _, ok := ud.(*types.Basic); ok {
			return xv
		}
	case BStr, *AStr:
		if _, ok := ud.(*types.Basic); ok {
			return xv
		}
		if bs, ok := xv.(BStr); ok {
			if sl, ok := ud.(*types.Slice); ok && basicOf(sl.Elem()).Kind() == types.Uint8 {
				out := make([]Value, len(bs))
				for i := range bs {
					out[i] = bs[i]
				}
				return out
			}
		}
	case []Value:
		if bd := basicOf(dst); bd != nil && isStrB(bd) {
			eb := basicOf(us.(*types.Slice).Elem())
			if eb.Kind() == types.Uint8 {
				allc := true
				for _, v := range xv {
					if !v.(*Term).conc() {
						allc = false
					}
				}
				if !allc {
					bs := make(BStr, len(xv))
					for i, v := range xv {
						bs[i] = v.(*Term)
					}
					return bs
				}
				b := make([]byte, len(xv))
				for i, v := range xv {
					b[i] = byte(v.(*Term).u())
				}
				return string(b)
			}
			r := make([]rune, len(xv))
			for i, v := range xv {
				r[i] = rune(v.(*Term).u())
			}
			return string(r)
		}
		if _, ok := ud.(*types.Slice); ok {
			return xv
		}
		if pa, ok := ud.(*types.Pointer); ok { // slice to array pointer
			_ = pa
			panic(abort("slice to array pointer conversion"))
		}
	case *Value:
		return xv // pointer conversions (unsafe not modelled)
	case Stale:
		panic(staleRead{xv.Where})
	}
	panic(abort(fmt.Sprintf("conv %s -> %s (%T)", src, dst, x)))
}

func (e *Exec) slice(x Value, ins *ssa.Slice, fr *frame) Value {
	geti := func(v ssa.Value, def int) int {
		if v == nil {
			return def
		}
		return int(sx(e.concretize(fr.term(v), 64), 64))
	}
	switch x := x.(type) {
	case BStr:
		lo, hi := geti(ins.Low, 0), geti(ins.High, len(x))
		if lo < 0 || hi > len(x) || lo > hi {
			panic(goPanic{fmt.Sprintf("runtime error: slice bounds out of range [%d:%d] with length %d", lo, hi, len(x))})
		}
		return x[lo:hi:hi]
	case string:
		if hasTok(x) {
			panic(abort("slicing a string holding symbolic atoms"))
		}
		lo, hi := geti(ins.Low, 0), geti(ins.High, len(x))
		if lo < 0 || hi > len(x) || lo > hi {
			panic(goPanic{fmt.Sprintf("runtime error: slice bounds out of range [%d:%d] with length %d", lo, hi, len(x))})
		}
		return x[lo:hi]
	case []Value:
		lo, hi, mx := geti(ins.Low, 0), geti(ins.High, len(x)), geti(ins.Max, cap(x))
		if lo < 0 || hi > cap(x) || lo > hi || mx > cap(x) || hi > mx {
			panic(goPanic{fmt.Sprintf("runtime error: slice bounds out of range [%d:%d:%d] with capacity %d", lo, hi, mx, cap(x))})
		}
		if x == nil {
			return x
		}
		return x[lo:hi:mx]
	case *Value:
		if x == nil {
			panic(nilDeref())
		}
		a := (*x).(Array)
		lo, hi, mx := geti(ins.Low, 0), geti(ins.High, len(a)), geti(ins.Max, len(a))
		return []Value(a)[lo:hi:mx]
	case Stale:
		// re-slicing a stale slice to [:0] is what Result.cleared legitimately does
		lo, hi := geti(ins.Low, 0), geti(ins.High, -1)
		if lo == 0 && hi == 0 {
			return make([]Value, 0, 4)
		}
		panic(staleRead{x.Where})
	}
	panic(abort(fmt.Sprintf("slice of %T", x)))
}

func (e *Exec) lookup(ins *ssa.Lookup, x, idx Value) Value {
	switch x := x.(type) {
	case *Map:
		e.mapAccess(x, false, "lookup")
		vt := ins.X.Type().Underlying().(*types.Map).Elem()
		if st, ok := idx.(Stale); ok {
			panic(staleRead{st.Where})
		}
		checkHashable(idx)
		if isSymKey(idx) || x.hasSymKeys() {
			okT := x.symFind(idx)
			v := zero(vt)
			if ins.CommaOk {
				return Tuple{v, okT}
			}
			if st, isStruct := vt.Underlying().(*types.Struct); isStruct && st.NumFields() == 0 {
				return v
			}
			panic(abort("value lookup in a map with symbolic keys"))
		}
		i := x.find(idx)
		if i < 0 {
			if ins.CommaOk {
				return Tuple{zero(vt), tFalse}
			}
			return zero(vt)
		}
		c := x.cond(i)
		if !c.conc() {
			// conditionally present entry: fork on its presence
			if e.branch(c) {
				c = tTrue
			} else {
				c = tFalse
			}
		}
		if !c.b() {
			if ins.CommaOk {
				return Tuple{zero(vt), tFalse}
			}
			return zero(vt)
		}
		if ins.CommaOk {
			return Tuple{copyVal(x.Vals[i]), tTrue}
		}
		return copyVal(x.Vals[i])
	case string:
		i := int(sx(e.concretize(idx.(*Term), 64), 64))
		if hasTok(x) {
			panic(abort("indexing a string holding symbolic atoms"))
		}
		if i < 0 || i >= len(x) {
			panic(goPanic{fmt.Sprintf("runtime error: index out of range [%d] with length %d", i, len(x))})
		}
		return cBV(uint64(x[i]), 8)
	case BStr:
		i := int(sx(e.concretize(idx.(*Term), 64), 64))
		if i < 0 || i >= len(x) {
			panic(goPanic{fmt.Sprintf("runtime error: index out of range [%d] with length %d", i, len(x))})
		}
		return x[i]
	case Stale:
		panic(staleRead{x.Where})
	}
	panic(abort(fmt.Sprintf("lookup in %T", x)))
}

// ---------- iteration ----------

type iter interface{ next(e *Exec) Tuple }

type mapIter struct {
	m     *Map
	order []int
	i     int
}

func (it *mapIter) next(e *Exec) Tuple {
	for it.i < len(it.order) {
		k := it.order[it.i]
		it.i++
		if k < len(it.m.Keys) { // entry may have been deleted: skip tombstones
			if it.m.Keys[k] == nil {
				continue
			}
			if c := it.m.cond(k); !c.conc() {
				if !e.branch(c) {
					continue
				}
			} else if !c.b() {
				continue
			}
			return Tuple{tTrue, it.m.Keys[k], copyVal(it.m.Vals[k])}
		}
	}
	return Tuple{tFalse, nil, nil}
}

type strIter struct {
	s string
	i int
}

func (it *strIter) next(e *Exec) Tuple {
	if it.i >= len(it.s) {
		return Tuple{tFalse, cBV(0, 64), cBV(0, 32)}
	}
	for _, r := range it.s[it.i:] {
		pos := it.i
		n := len(string(r))
		if r == 0xFFFD && !strings.HasPrefix(it.s[pos:], "�") {
			n = 1
		}
		it.i += n
		return Tuple{tTrue, cBV(uint64(pos), 64), cBV(uint64(r), 32)}
	}
	return Tuple{tFalse, cBV(0, 64), cBV(0, 32)}
}

func (e *Exec) rangeIter(x Value, t types.Type) iter {
	switch x := x.(type) {
	case *Map:
		if x == nil {
			return &mapIter{m: &Map{}}
		}
		e.mapAccess(x, false, "range")
		order := make([]int, 0, len(x.Keys))
		for i := range x.Keys {
			if x.Keys[i] != nil {
				order = append(order, i)
			}
		}
		// canonical order: sorted by key when keys are concrete strings
		sort.SliceStable(order, func(a, b int) bool {
			ka, oka := x.Keys[order[a]].(string)
			kb, okb := x.Keys[order[b]].(string)
			return oka && okb && ka < kb
		})
		if e.permMaps && !x.noPerm && len(order) > 1 && len(order) <= 4 {
			var perm []int
			rest := append([]int{}, order...)
			for len(rest) > 1 {
				k := e.choose(len(rest), "perm", "perm")
				perm = append(perm, rest[k])
				rest = append(rest[:k], rest[k+1:]...)
			}
			order = append(perm, rest[0])
		}
		return &mapIter{m: x, order: order}
	case string:
		if hasTok(x) {
			panic(abort("range over a string holding symbolic atoms"))
		}
		return &strIter{s: x}
	case Stale:
		panic(staleRead{x.Where})
	}
	panic(abort(fmt.Sprintf("range over %T", x)))
}

// ---------- type assertion ----------

func (e *Exec) typeAssert(ins *ssa.TypeAssert, x Iface) Value {
	ok := false
	var v Value
	if it, isI := ins.AssertedType.Underlying().(*types.Interface); isI {
		if x.T != nil {
			if _, isR := x.V.(*RType); isR {
				ok, v = true, x
			} else if types.Implements(x.T, it) {
				ok, v = true, x
			}
		}
	} else if x.T != nil && types.Identical(x.T, ins.AssertedType) {
		ok, v = true, copyVal(x.V)
	}
	if ins.CommaOk {
		if !ok {
			v = zero(ins.AssertedType)
		}
		return Tuple{v, cBool(ok)}
	}
	if !ok {
		got := "nil"
		if x.T != nil {
			got = x.T.String()
		}
		panic(goPanic{"interface conversion: interface is " + got + ", not " + ins.AssertedType.String()})
	}
	return v
}
