#!/bin/sh
# collects a sub-agent's seed from its scratch worktree into /verif/seeded/<id>/ (patch + demo), then confirms it
# usage: tools_seedcollect.sh <seed-id> <worktree>
id=$1; wt=$2; s=/verif/seeded/$id
mkdir -p $s
cp $wt/seed_demo_test.go $s/seed_demo_test.go || exit 1
(cd $wt && git diff -- . ':!seed_demo_test.go' ':!patch.diff') > $s/patch.diff
[ -s $s/patch.diff ] || cp $wt/patch.diff $s/patch.diff
/verif/tools_seedcheck.sh $id
