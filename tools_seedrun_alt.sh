#!/bin/sh
# like tools_seedrun.sh, but leaves /repo alone: the seed is applied to the scratch worktree /tmp/seedcheck
# and the engine is pointed at it with GOSX_REPO (for use while /repo is busy with other checks)
id=$1; prop=${2:-$1}; bin=${GOSX_BIN:-/verif/bin/gosx}
cd /tmp/seedcheck && git checkout -q -- . && git clean -fdq && git checkout -q --detach main
git apply /verif/seeded/$id/patch.diff || { echo "$id: patch does not apply"; exit 2; }
cd /verif
out=$(GOSX_REPO=/tmp/seedcheck $bin check $prop 2>&1 | grep -av WARN)
code=$(echo "$out" | grep -o "exit=[0-9]" | tail -1)
git -C /tmp/seedcheck checkout -q -- .
echo "== seed $id vs check $prop (scratch tree): $code"
echo "$out" | grep -a "VIOLATION\|INCONCLUSIVE\|^  Harness" | cut -c1-260 | head -6
