#!/bin/sh
# confirms a seeded change in a scratch worktree: compiles, suite passes with it, demo fails with it and passes without it
id=$1; wt=/tmp/seedcheck; s=/verif/seeded/$id
export GOFLAGS=-mod=mod GOPROXY=off GOSUMDB=off GOTOOLCHAIN=local
race=""; case $id in C05|C15|C05c|C05d) race="-race";; esac
demo=seed_demo_test.go; [ -f $s/demo_path.txt ] && demo=$(cat $s/demo_path.txt)
pkg=./$(dirname $demo)
cd $wt && git checkout -q -- . && git clean -fdq
cp $s/seed_demo_test.go $demo
without=$(go test $race -vet=off -count=1 -run '^TestSeedDemo$' $pkg 2>&1 | tail -1)
git apply $s/patch.diff || { echo "$id APPLY-FAILED"; exit 1; }
go build ./... || { echo "$id BUILD-FAILED"; exit 1; }
with=$(go test $race -vet=off -count=1 -run '^TestSeedDemo$' $pkg 2>&1 | tail -1)
rm -f $demo
suite=$(/verif/tools_suite.sh $wt 2>&1 | grep -a "baseline missing")
git checkout -q -- .
echo "$id demo-without: $without | demo-with: $with | suite-with: $suite"
