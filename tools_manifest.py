#!/usr/bin/env python3
# regenerates MANIFEST.json from the list of claimed properties (kept in sync by hand with gosx/props*.go)
import json,sys
props=[json.loads(l) for l in open('/verif/properties.jsonl')]
claimed=json.load(open('/verif/claimed.json'))
na=claimed.get('not_applicable',{})
checks=[]
for p in props:
    c=claimed['claimed'].get(p['id'])
    if not c: continue
    checks.append({
      "property_id":p['id'],
      "quick_cmd":"bin/gosx check %s --tier quick"%p['id'],
      "thorough_cmd":"bin/gosx check %s --tier thorough"%p['id'],
      "evidence_file":"/verif/evidence/%s.json"%p['id'],
      "replay_cmd_template":"bin/gosx replay {path}",
      "engine":"gosx",
      "level_claimed":{"category":"model_checking","text":c['text'],"design_ref":"DESIGN.md section 4 "+p['id']},
      "level_note":c.get('note',"trusted: the gosx engine (go/ssa symbolic interpreter), the solvers, the modelled Go semantics, the stubs listed in evidence.assumptions; bounds as listed in evidence.coverage.harnesses[].bounds"),
      "technique":c.get('technique',"SSA symbolic execution + SMT (BV/FP), counterexample replay")})
m={"version":1,
 "setup_cmd":"cd /verif/gosx && GOFLAGS=-mod=mod GOPROXY=off GOSUMDB=off GOTOOLCHAIN=local go build -o /verif/bin/gosx . && /verif/bin/gosx selftest",
 "hooks":{"guard":"verif","enable":"harnesses (build tag verif) are injected by go/packages and go test overlays; native replay adds tag verifnative; nothing is written under /repo","baseline_off_cmd":"cd /repo && go test -json -vet=off -count=1 -timeout 25m ./...","source_commits":[],"add_only":True},
 "engines":[{"name":"gosx","path":"/verif/gosx","serves_properties":sorted(claimed['claimed'].keys()),"kind_free_text":"symbolic interpreter of go/ssa producing SMT-LIB2 (BV+FP) queries for z3/cvc5; path exploration by decision-prefix re-execution with concolic guidance, region merging and finite-domain tables"}],
 "checks":checks,
 "not_applicable":[{"property_id":p['id'],"reason":na.get(p['id'],"check not built yet (work in progress; see DESIGN.md section 4)")} for p in props if p['id'] not in claimed['claimed']],
 "notes":claimed.get('notes','')}
json.dump(m,open('/verif/MANIFEST.json','w'),indent=1)
print("claimed:",sorted(claimed['claimed'].keys()))
